From Coq Require Import List NArith ZArith Lia Bool ZifyN ZifyNat ZifyBool.
Import ListNotations.
Open Scope N_scope.

(* ---------- transliteration of simple/inode.go (uint64 arithmetic explicit) ---------- *)
Definition W := 18446744073709551616.           (* 2^64 *)
Definition BS := 4096.
Definition byte := N.                            (* spike: bytes as N *)

Record ino := { size : N; blk : list byte }.     (* the inode's size and its one data block *)

Definition sum_overflows (n m:N) : bool := ((n + m) mod W) <? n.
Definition lenN {A} (l:list A) : N := N.of_nat (length l).

Definition sub (l:list byte) (off cnt:N) : list byte := firstn (N.to_nat cnt) (skipn (N.to_nat off) l).
Definition splice (l:list byte) (off:N) (d:list byte) : list byte :=
  firstn (N.to_nat off) l ++ d ++ skipn (N.to_nat off + length d) l.

(* Inode.Read *)
Definition i_read (ip:ino) (offset bytesToRead:N) : list byte * bool :=
  if size ip <=? offset then ([], true) else
  let count := if (size ip - offset) <? bytesToRead then size ip - offset else bytesToRead in
  (sub (blk ip) offset count, size ip <=? (offset + count) mod W).

(* Inode.Write : returns (count, ok) and the new inode *)
Definition i_write (ip:ino) (offset count:N) (data:list byte) : option (N * ino) :=
  if negb (count =? lenN data) then None else
  if sum_overflows offset count then None else
  if BS <? (offset + count) mod W then None else
  if size ip <? offset then None else
  let b' := splice (blk ip) offset data in
  let sz' := if size ip <? (offset + count) mod W then (offset + count) mod W else size ip in
  Some (count, {| size := sz'; blk := b' |}).

(* SETATTR size path: returns new inode or NOSPC (None), plus bytes allocated by make() *)
Definition i_setsize (ip:ino) (newsize:N) : option ino * N :=
  if size ip <? newsize then
    let n := newsize - size ip in
    match i_write ip (size ip) n (repeat 0 (N.to_nat n)) with
    | Some (_, ip') => (if size ip' =? newsize then Some ip' else None, n)
    | None => (None, n)
    end
  else (Some {| size := newsize; blk := blk ip |}, 0).

(* ---------- specification: a file is a list of at most 4096 bytes ---------- *)
Definition file := list byte.
Definition s_read (f:file) (offset count:N) : list byte * bool :=
  if lenN f <=? offset then ([], true)
  else (firstn (N.to_nat count) (skipn (N.to_nat offset) f), lenN f <=? offset + N.min count (lenN f - offset)).
Definition s_write (f:file) (offset:N) (data:list byte) : option file :=
  if (offset <=? lenN f) && (offset + lenN data <=? BS)
  then Some (firstn (N.to_nat offset) f ++ data ++ skipn (N.to_nat offset + length data) f) else None.
Definition s_setsize (f:file) (newsize:N) : option file :=
  if BS <? newsize then None
  else if lenN f <? newsize then Some (f ++ repeat 0 (N.to_nat (newsize - lenN f)))
  else Some (firstn (N.to_nat newsize) f).

(* representation *)
Definition rep (ip:ino) (f:file) : Prop :=
  length (blk ip) = N.to_nat BS /\ size ip <= BS /\ f = firstn (N.to_nat (size ip)) (blk ip).

Ltac Zify.zify_post_hook ::= Z.div_mod_to_equations.

Lemma rep_len ip f : rep ip f -> lenN f = size ip.
Proof. intros (L & S & ->). unfold lenN. rewrite firstn_length. unfold BS in *. lia. Qed.

Lemma sum_overflows_spec n m : n < W -> m < W -> sum_overflows n m = (W <=? n + m).
Proof.
  intros Hn Hm. unfold sum_overflows.
  destruct (N.leb_spec W (n + m)) as [Hge|Hlt].
  - assert ((n + m) mod W = n + m - W).
    { symmetry. apply (N.mod_unique _ _ 1); unfold W in *; lia. }
    rewrite H. apply N.ltb_lt. unfold W in *. lia.
  - rewrite N.mod_small by exact Hlt. apply N.ltb_ge. lia.
Qed.

(* ---------- list plumbing ---------- *)
Section Plumb.
Local Open Scope nat_scope.
Lemma splice_length l off d : N.to_nat off + length d <= length l -> length (splice l off d) = length l.
Proof. intros H. unfold splice. rewrite !app_length, firstn_length, skipn_length. lia. Qed.

Lemma firstn_splice_ge l off d n :
  N.to_nat off + length d <= length l -> N.to_nat off + length d <= n ->
  firstn n (splice l off d) = firstn (N.to_nat off) l ++ d ++ firstn (n - (N.to_nat off + length d)) (skipn (N.to_nat off + length d) l).
Proof.
  intros H1 H2. unfold splice. rewrite firstn_app. rewrite firstn_length.
  replace (Nat.min (N.to_nat off) (length l)) with (N.to_nat off) by lia.
  rewrite (firstn_all2 (n:=n)) by (rewrite firstn_length; lia).
  f_equal. rewrite firstn_app. rewrite (firstn_all2 (n:=n - N.to_nat off)) by lia.
  f_equal. f_equal. lia.
Qed.
End Plumb.

(* ---------- refinement theorems ---------- *)
Theorem read_refines ip f offset count : rep ip f -> offset < W -> count < W ->
  i_read ip offset count = s_read f offset count.
Proof.
  intros R Ho Hc. pose proof (rep_len _ _ R) as Hl. destruct R as (L & S & ->).
  unfold i_read, s_read. rewrite Hl. destruct (N.leb_spec (size ip) offset) as [Hge|Hlt]; [reflexivity|].
  f_equal.
  - unfold sub. rewrite skipn_firstn_comm. rewrite firstn_firstn. f_equal.
    destruct (N.ltb_spec (size ip - offset) count) as [H|H]; lia.
  - destruct (N.ltb_spec (size ip - offset) count) as [H|H].
    + rewrite N.mod_small by (unfold W, BS in *; lia). f_equal. lia.
    + rewrite N.mod_small by (unfold W, BS in *; lia). f_equal. lia.
Qed.

Theorem write_refines ip f offset count data : rep ip f -> offset < W -> count < W ->
  match i_write ip offset count data with
  | Some (c, ip') => c = count /\ count = lenN data /\ exists f', s_write f offset data = Some f' /\ rep ip' f'
  | None => count <> lenN data \/ s_write f offset data = None
  end.
Proof.
  intros R Ho Hc. pose proof (rep_len _ _ R) as Hl. destruct R as (L & S & ->).
  unfold i_write. destruct (N.eqb_spec count (lenN data)) as [Ec|Nc]; simpl; [|now left].
  rewrite sum_overflows_spec by assumption. unfold s_write. rewrite Hl.
  destruct (N.leb_spec W (offset + count)) as [Hov|Hnov].
  { right. rewrite <- Ec. destruct (N.leb_spec (offset + count) BS); [unfold W, BS in *; lia|]. now rewrite andb_false_r. }
  rewrite (N.mod_small (offset + count) W) by exact Hnov.
  destruct (N.ltb_spec BS (offset + count)) as [Hbig|Hfit].
  { right. rewrite <- Ec. destruct (N.leb_spec (offset + count) BS); [lia|]. now rewrite andb_false_r. }
  destruct (N.ltb_spec (size ip) offset) as [Hhole|Hok].
  { right. destruct (N.leb_spec offset (size ip)); [lia|]. reflexivity. }
  split; [reflexivity|]. split; [exact Ec|].
  destruct (N.leb_spec offset (size ip)); [|lia]. rewrite <- Ec. destruct (N.leb_spec (offset + count) BS); [|lia]. simpl.
  eexists. split; [reflexivity|].
  assert (Hd: length data = N.to_nat count) by (unfold lenN in Ec; lia).
  assert (Hfit': (N.to_nat offset + length data <= length (blk ip))%nat) by (unfold BS in *; lia).
  split; [|split]; simpl.
  - rewrite splice_length by exact Hfit'. exact L.
  - destruct (N.ltb_spec (size ip) (offset + count)); lia.
  - destruct (N.ltb_spec (size ip) (offset + count)) as [Hext|Hin].
    + (* the write extends the file *)
      rewrite firstn_splice_ge by lia.
      replace (N.to_nat (offset + count) - (N.to_nat offset + length data))%nat with 0%nat by lia.
      rewrite firstn_firstn. replace (Nat.min (N.to_nat offset) (N.to_nat (size ip))) with (N.to_nat offset) by lia.
      f_equal. f_equal. simpl. rewrite skipn_all2; [reflexivity|]. rewrite firstn_length. lia.
    + (* overwrite inside the file *)
      rewrite firstn_splice_ge by lia. rewrite firstn_firstn.
      replace (Nat.min (N.to_nat offset) (N.to_nat (size ip))) with (N.to_nat offset) by lia.
      f_equal. f_equal. rewrite skipn_firstn_comm. reflexivity.
Qed.

(* the allocation performed by SETATTR is not bounded by the block size: the defect, as a theorem *)
Lemma setsize_alloc ip newsize : size ip < newsize -> snd (i_setsize ip newsize) = newsize - size ip.
Proof.
  intros H. unfold i_setsize. destruct (N.ltb_spec (size ip) newsize); [|lia].
  destruct (i_write _ _ _ _) as [[c ip']|]; reflexivity.
Qed.

Lemma lenN_repeat (x:byte) n : lenN (repeat x (N.to_nat n)) = n.
Proof. unfold lenN. rewrite repeat_length. lia. Qed.

Theorem setsize_refines ip f newsize : rep ip f -> newsize < W ->
  match fst (i_setsize ip newsize) with
  | Some ip' => exists f', s_setsize f newsize = Some f' /\ rep ip' f'
  | None => s_setsize f newsize = None
  end.
Proof.
  intros R Hn. pose proof (rep_len _ _ R) as Hl. pose proof R as R0. destruct R as (L & S & Ef).
  unfold i_setsize, s_setsize. rewrite Hl.
  destruct (N.ltb_spec (size ip) newsize) as [Hgrow|Hshrink].
  - (* grow: goes through Write with a zero buffer *)
    pose proof (write_refines ip f (size ip) (newsize - size ip) (repeat 0 (N.to_nat (newsize - size ip))) R0) as WR.
    assert (size ip < W) by (unfold W, BS in *; lia). assert (newsize - size ip < W) by lia.
    specialize (WR H H0).
    destruct (i_write ip (size ip) (newsize - size ip) (repeat 0 (N.to_nat (newsize - size ip)))) as [[c ip']|] eqn:E.
    + destruct WR as (_ & _ & f' & Hs & R'). simpl.
      unfold s_write in Hs. rewrite Hl, lenN_repeat in Hs.
      destruct (N.leb_spec (size ip) (size ip)); [|lia].
      destruct (N.leb_spec (size ip + (newsize - size ip)) BS) as [Hfit|]; [|discriminate]. simpl in Hs.
      assert (Hsz: size ip' = newsize).
      { unfold i_write in E. rewrite lenN_repeat in E. rewrite N.eqb_refl in E. simpl in E.
        rewrite sum_overflows_spec in E by assumption.
        destruct (N.leb_spec W (size ip + (newsize - size ip))); [unfold W, BS in *; lia|].
        rewrite (N.mod_small (size ip + (newsize - size ip)) W) in E by lia.
        destruct (N.ltb_spec BS (size ip + (newsize - size ip))); [lia|].
        destruct (N.ltb_spec (size ip) (size ip)); [lia|].
        destruct (N.ltb_spec (size ip) (size ip + (newsize - size ip))); [|lia].
        injection E as _ <-. simpl. lia. }
      rewrite Hsz, N.eqb_refl. destruct (N.ltb_spec BS newsize); [lia|].
      exists f'. split; [|exact R']. f_equal. injection Hs as <-.
      assert (Hlf: length f = N.to_nat (size ip)) by (unfold lenN in Hl; lia).
      rewrite (firstn_all2 (n:=N.to_nat (size ip)) f) by lia.
      rewrite skipn_all2 by lia. now rewrite app_nil_r.
    + simpl. destruct WR as [C|Hs]; [rewrite lenN_repeat in C; lia|].
      unfold s_write in Hs. rewrite Hl, lenN_repeat in Hs.
      destruct (N.leb_spec (size ip) (size ip)); [|lia].
      destruct (N.leb_spec (size ip + (newsize - size ip)) BS); [discriminate|].
      destruct (N.ltb_spec BS newsize); [reflexivity|lia].
  - simpl. destruct (N.ltb_spec BS newsize); [lia|].
    eexists. split; [reflexivity|]. split; [exact L|]. split; [simpl; lia|]. simpl.
    rewrite Ef. rewrite firstn_firstn. f_equal. lia.
Qed.
Print Assumptions setsize_refines.
