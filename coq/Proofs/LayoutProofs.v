(* Round-trip theorems for the on-disk layouts. *)
From stdpp Require Import list.
From Coq Require Import NArith ZArith Lia ZifyN ZifyNat ZifyBool.
From V Require Import Model.Lib Model.Abs Model.Layout.
Open Scope N_scope.
Ltac Zify.zify_post_hook ::= Z.div_mod_to_equations.

Lemma byte_to_of x : Byte.to_N (byte_of_N x) = x mod 256.
Proof.
  unfold byte_of_N. assert (H : x mod 256 < 256) by (apply N.mod_lt; discriminate).
  destruct (Byte.of_N (x mod 256)) eqn:E.
  - simpl. apply Byte.to_of_N. exact E.
  - apply Byte.of_N_None_iff in E. lia.
Qed.

Lemma unle_le n : forall x, unle (le n x) = x mod (256 ^ N.of_nat n).
Proof.
  induction n as [|n IH]; intros x.
  - simpl. rewrite N.mod_1_r. reflexivity.
  - cbn [le unle]. rewrite byte_to_of, IH.
    replace (N.of_nat (S n)) with (N.succ (N.of_nat n)) by lia. rewrite N.pow_succ_r'.
    assert (P : 0 < 256 ^ N.of_nat n) by (apply N.neq_0_lt_0; apply N.pow_nonzero; discriminate).
    rewrite (N.mod_mul_r x 256 (256 ^ N.of_nat n)) by lia. lia.
Qed.

Lemma le_length n x : length (le n x) = n.
Proof. revert x. induction n; intros; simpl; [reflexivity|]. f_equal. apply IHn. Qed.

Lemma unle_le_small n x : x < 256 ^ N.of_nat n -> unle (le n x) = x.
Proof. intros H. rewrite unle_le. apply N.mod_small. exact H. Qed.

(* reading back a field that was laid out at a given position *)
Lemma get_skip n (pre : bytes) x rest off : N.of_nat (length pre) = off ->
  get n (pre ++ le n x ++ rest) off = x mod 256 ^ N.of_nat n.
Proof.
  intros H. unfold get, dropN. subst off. rewrite Nat2N.id.
  rewrite drop_app. rewrite take_app_alt by (symmetry; apply le_length). apply unle_le.
Qed.

(* handles: parse (encode) is the identity on 64-bit fields *)
Theorem decode_encode_fh i g : i < 2^64 -> g < 2^64 -> parse_handle (encode_fh i g) = Some (i, g).
Proof.
  intros Hi Hg. unfold encode_fh, mk_handle, parse_handle, lenN.
  rewrite app_length, !le_length.
  replace (N.of_nat (8 + 8) =? 16) with true by reflexivity. cbv iota.
  rewrite take_app_alt by (symmetry; apply le_length). rewrite drop_app_alt by (symmetry; apply le_length).
  rewrite !unle_le_small by (change (256 ^ N.of_nat 8) with (2^64); assumption). reflexivity.
Qed.

(* directory entries: the slot decoder returns the name and number that were encoded *)
Theorem decode_encode_dirent inum n : 0 < inum -> inum < 2^64 -> lenN n <= 112 ->
  slot_of (encode_dirent inum n) 0 = Some (n, inum) /\ length (encode_dirent inum n) = 128%nat.
Proof.
  intros H0 Hi Hn. unfold slot_of, encode_dirent, get64.
  assert (G1 : get 8 (le 8 inum ++ le 8 (lenN n) ++ n ++ zeros (DIRENTSZ - 16 - lenN n)) 0 = inum).
  { change (le 8 inum ++ le 8 (lenN n) ++ n ++ zeros (DIRENTSZ - 16 - lenN n)) with ([] ++ le 8 inum ++ le 8 (lenN n) ++ n ++ zeros (DIRENTSZ - 16 - lenN n)).
    rewrite (get_skip 8 [] inum); [apply N.mod_small; change (256 ^ N.of_nat 8) with (2^64); assumption|reflexivity]. }
  assert (G2 : get 8 (le 8 inum ++ le 8 (lenN n) ++ n ++ zeros (DIRENTSZ - 16 - lenN n)) (0 + 8) = lenN n).
  { rewrite (get_skip 8 (le 8 inum) (lenN n)); [apply N.mod_small; change (256 ^ N.of_nat 8) with (2^64); lia|].
    rewrite le_length. reflexivity. }
  rewrite G1, G2. destruct (inum =? 0) eqn:E; [apply N.eqb_eq in E; lia|].
  split.
  - f_equal. f_equal. unfold takeN, dropN.
    change (N.to_nat (0 + 16)) with (8 + 8)%nat.
    rewrite app_assoc. rewrite drop_app_alt by (rewrite app_length, !le_length; reflexivity).
    unfold lenN. rewrite Nat2N.id. apply take_app.
  - rewrite !app_length, !le_length. unfold zeros. rewrite replicate_length. unfold DIRENTSZ, lenN in *. lia.
Qed.

Lemma words_concat_le (l : list N) rest : Forall (fun b => b < 2^64) l ->
  words (length l) (concat (map (le 8) l) ++ rest) = l.
Proof.
  induction l as [|x l IH]; intros H; [reflexivity|].
  inversion H as [|? ? Hx Hl]; subst. cbn [length map concat words].
  rewrite <- app_assoc.
  rewrite take_app_alt by (symmetry; apply le_length). rewrite drop_app_alt by (symmetry; apply le_length).
  rewrite unle_le_small by (change (256 ^ N.of_nat 8) with (2^64); assumption).
  f_equal. apply IH. exact Hl.
Qed.

(* inodes: decoding an encoded inode gives back every field *)
Theorem decode_encode_inode ip : inode_in_range ip -> decode_inode (encode_inode ip) = ip.
Proof.
  intros (Hk & Hn & Hg & Hs & Hh & Ha1 & Ha2 & Hm1 & Hm2 & Hl & Hb).
  destruct ip as [k n g s h [a1 a2] [m1 m2] bl]. cbn [i_kind i_nlink i_gen i_size i_shrink i_atime i_mtime i_blks fst snd] in *.
  unfold decode_inode, encode_inode, get32, get64. cbn [i_kind i_nlink i_gen i_size i_shrink i_atime i_mtime i_blks fst snd].
  set (F0 := le 4 k). set (F1 := le 4 n). set (F2 := le 8 g). set (F3 := le 8 s). set (F4 := le 8 h).
  set (F5 := le 4 a1). set (F6 := le 4 a2). set (F7 := le 4 m1). set (F8 := le 4 m2). set (T := concat (map (le 8) bl)).
  assert (L0 : length F0 = 4%nat) by apply le_length. assert (L1 : length F1 = 4%nat) by apply le_length.
  assert (L2 : length F2 = 8%nat) by apply le_length. assert (L3 : length F3 = 8%nat) by apply le_length.
  assert (L4 : length F4 = 8%nat) by apply le_length. assert (L5 : length F5 = 4%nat) by apply le_length.
  assert (L6 : length F6 = 4%nat) by apply le_length. assert (L7 : length F7 = 4%nat) by apply le_length.
  assert (L8 : length F8 = 4%nat) by apply le_length.
  assert (P32 : 256 ^ N.of_nat 4 = 2^32) by reflexivity. assert (P64 : 256 ^ N.of_nat 8 = 2^64) by reflexivity.
  (* each field: regroup the concatenation as prefix ++ field ++ rest *)
  assert (E0 : get 4 (F0 ++ F1 ++ F2 ++ F3 ++ F4 ++ F5 ++ F6 ++ F7 ++ F8 ++ T) 0 = k).
  { change (F0 ++ F1 ++ F2 ++ F3 ++ F4 ++ F5 ++ F6 ++ F7 ++ F8 ++ T) with ([] ++ le 4 k ++ (F1 ++ F2 ++ F3 ++ F4 ++ F5 ++ F6 ++ F7 ++ F8 ++ T)).
    rewrite get_skip by reflexivity. rewrite P32. apply N.mod_small; assumption. }
  assert (E1 : get 4 (F0 ++ F1 ++ F2 ++ F3 ++ F4 ++ F5 ++ F6 ++ F7 ++ F8 ++ T) 4 = n).
  { change (F0 ++ F1 ++ F2 ++ F3 ++ F4 ++ F5 ++ F6 ++ F7 ++ F8 ++ T) with (F0 ++ le 4 n ++ (F2 ++ F3 ++ F4 ++ F5 ++ F6 ++ F7 ++ F8 ++ T)).
    rewrite get_skip by (rewrite L0; reflexivity). rewrite P32. apply N.mod_small; assumption. }
  assert (E2 : get 8 (F0 ++ F1 ++ F2 ++ F3 ++ F4 ++ F5 ++ F6 ++ F7 ++ F8 ++ T) 8 = g).
  { replace (F0 ++ F1 ++ F2 ++ F3 ++ F4 ++ F5 ++ F6 ++ F7 ++ F8 ++ T) with ((F0 ++ F1) ++ le 8 g ++ (F3 ++ F4 ++ F5 ++ F6 ++ F7 ++ F8 ++ T)) by (rewrite <- !app_assoc; reflexivity).
    rewrite get_skip by (rewrite app_length, L0, L1; reflexivity). rewrite P64. apply N.mod_small; assumption. }
  assert (E3 : get 8 (F0 ++ F1 ++ F2 ++ F3 ++ F4 ++ F5 ++ F6 ++ F7 ++ F8 ++ T) 16 = s).
  { replace (F0 ++ F1 ++ F2 ++ F3 ++ F4 ++ F5 ++ F6 ++ F7 ++ F8 ++ T) with ((F0 ++ F1 ++ F2) ++ le 8 s ++ (F4 ++ F5 ++ F6 ++ F7 ++ F8 ++ T)) by (rewrite <- !app_assoc; reflexivity).
    rewrite get_skip by (rewrite !app_length, L0, L1, L2; reflexivity). rewrite P64. apply N.mod_small; assumption. }
  assert (E4 : get 8 (F0 ++ F1 ++ F2 ++ F3 ++ F4 ++ F5 ++ F6 ++ F7 ++ F8 ++ T) 24 = h).
  { replace (F0 ++ F1 ++ F2 ++ F3 ++ F4 ++ F5 ++ F6 ++ F7 ++ F8 ++ T) with ((F0 ++ F1 ++ F2 ++ F3) ++ le 8 h ++ (F5 ++ F6 ++ F7 ++ F8 ++ T)) by (rewrite <- !app_assoc; reflexivity).
    rewrite get_skip by (rewrite !app_length, L0, L1, L2, L3; reflexivity). rewrite P64. apply N.mod_small; assumption. }
  assert (E5 : get 4 (F0 ++ F1 ++ F2 ++ F3 ++ F4 ++ F5 ++ F6 ++ F7 ++ F8 ++ T) 32 = a1).
  { replace (F0 ++ F1 ++ F2 ++ F3 ++ F4 ++ F5 ++ F6 ++ F7 ++ F8 ++ T) with ((F0 ++ F1 ++ F2 ++ F3 ++ F4) ++ le 4 a1 ++ (F6 ++ F7 ++ F8 ++ T)) by (rewrite <- !app_assoc; reflexivity).
    rewrite get_skip by (rewrite !app_length, L0, L1, L2, L3, L4; reflexivity). rewrite P32. apply N.mod_small; assumption. }
  assert (E6 : get 4 (F0 ++ F1 ++ F2 ++ F3 ++ F4 ++ F5 ++ F6 ++ F7 ++ F8 ++ T) 36 = a2).
  { replace (F0 ++ F1 ++ F2 ++ F3 ++ F4 ++ F5 ++ F6 ++ F7 ++ F8 ++ T) with ((F0 ++ F1 ++ F2 ++ F3 ++ F4 ++ F5) ++ le 4 a2 ++ (F7 ++ F8 ++ T)) by (rewrite <- !app_assoc; reflexivity).
    rewrite get_skip by (rewrite !app_length, L0, L1, L2, L3, L4, L5; reflexivity). rewrite P32. apply N.mod_small; assumption. }
  assert (E7 : get 4 (F0 ++ F1 ++ F2 ++ F3 ++ F4 ++ F5 ++ F6 ++ F7 ++ F8 ++ T) 40 = m1).
  { replace (F0 ++ F1 ++ F2 ++ F3 ++ F4 ++ F5 ++ F6 ++ F7 ++ F8 ++ T) with ((F0 ++ F1 ++ F2 ++ F3 ++ F4 ++ F5 ++ F6) ++ le 4 m1 ++ (F8 ++ T)) by (rewrite <- !app_assoc; reflexivity).
    rewrite get_skip by (rewrite !app_length, L0, L1, L2, L3, L4, L5, L6; reflexivity). rewrite P32. apply N.mod_small; assumption. }
  assert (E8 : get 4 (F0 ++ F1 ++ F2 ++ F3 ++ F4 ++ F5 ++ F6 ++ F7 ++ F8 ++ T) 44 = m2).
  { replace (F0 ++ F1 ++ F2 ++ F3 ++ F4 ++ F5 ++ F6 ++ F7 ++ F8 ++ T) with ((F0 ++ F1 ++ F2 ++ F3 ++ F4 ++ F5 ++ F6 ++ F7) ++ le 4 m2 ++ T) by (rewrite <- !app_assoc; reflexivity).
    rewrite get_skip by (rewrite !app_length, L0, L1, L2, L3, L4, L5, L6, L7; reflexivity). rewrite P32. apply N.mod_small; assumption. }
  rewrite E0, E1, E2, E3, E4, E5, E6, E7, E8.
  assert (ET : words 10 (drop 48 (F0 ++ F1 ++ F2 ++ F3 ++ F4 ++ F5 ++ F6 ++ F7 ++ F8 ++ T)) = bl).
  { replace (F0 ++ F1 ++ F2 ++ F3 ++ F4 ++ F5 ++ F6 ++ F7 ++ F8 ++ T) with ((F0 ++ F1 ++ F2 ++ F3 ++ F4 ++ F5 ++ F6 ++ F7 ++ F8) ++ T) by (rewrite <- !app_assoc; reflexivity).
    rewrite drop_app_alt by (rewrite !app_length, L0, L1, L2, L3, L4, L5, L6, L7, L8; reflexivity).
    rewrite <- Hl. rewrite <- (app_nil_r T). apply words_concat_le. exact Hb. }
  rewrite ET. reflexivity.
Qed.
