(* Extraction of the executable models for the correspondence drivers.
   ExtrOcamlBasic only: N, positive, nat, byte stay Coq datatypes. *)
From Coq Require Extraction ExtrOcamlBasic.
From Coq Require Import NArith.
From V Require Import Model.Xdr Model.XdrConform Gen.GenXdr Gen.GenRfc Model.SimpleModel Model.KvsModel Gen.GenSuper Model.SuperModel Model.Lib Model.Afs Model.Abs Model.Agree Model.WalDisk Model.TraceCheck Model.Lin Model.DirModel Model.AllocModel Model.IcacheModel.
Extraction Blacklist String List Nat.
Set Extraction KeepSingleton.
Extraction "extracted.ml"
  N.add N.mul N.of_nat N.to_nat N.div N.modulo N.eqb N.ltb
  Lib.byte_of_N Lib.mk_handle Lib.parse_handle Lib.zeros
  Afs.step Afs.init_afs Afs.set_unstable Afs.objs
  Abs.abs_disk Abs.disk_set Abs.empty_disk Abs.mk_layout
  GenSuper.MkFsSuper GenSuper.MaxBnum GenSuper.BitmapBlockStart GenSuper.BitmapInodeStart GenSuper.InodeStart
  GenSuper.DataStart GenSuper.NInode GenSuper.Inum2Addr GenSuper.NBlockBitmap
  SuperModel.markAlloc_sane SuperModel.mk_bit SuperModel.mk_ibit SuperModel.fresh_free_blocks SuperModel.fresh_free_inodes
  SuperModel.layout_ok_b SuperModel.bitmap_ok_b
  Agree.agree Agree.hint_of Agree.cmp_state Agree.class_of Agree.code_of Agree.nospace_plausible Agree.enum_names Agree.readdir_matches_model Agree.readdirplus_matches_model Agree.dir_slot_table Agree.slots_moved Agree.cached_inode_ok Agree.name_cache_ok Agree.limits_plausible
  SimpleModel.sstep SimpleModel.istep SimpleModel.simple_abs SimpleModel.simple_inum_of_handle SimpleModel.s_file SimpleModel.simple_empty_s SimpleModel.simple_empty_i
  KvsModel.kput KvsModel.kget KvsModel.k_valid KvsModel.kput_ok KvsModel.kvs_empty Abs.rd
  TraceCheck.asc_b TraceCheck.asc_f TraceCheck.commit_phase_b TraceCheck.balanced_b TraceCheck.waits TraceCheck.committed
  Xdr.enc Xdr.dec XdrConform.lookup_ci GenXdr.gen_env GenRfc.rfc_env
  Lin.lin_check
  IcacheModel.icstep IcacheModel.ic_make IcacheModel.ic_disk_at IcacheModel.ic_cache_at
  AllocModel.astep AllocModel.a_init_list AllocModel.a_disk_list AllocModel.a_mem_size
  DirModel.dm_lookup DirModel.dm_addx DirModel.rem_name DirModel.drop_cache DirModel.dm_make DirModel.dm_cache_list DirModel.d_slots
  WalDisk.recover_log WalDisk.fs_part WalDisk.read_hdr Byte.to_N.
