(* Correspondence driver: replays a harness trace against the extracted Coq
   models.  Thin glue only: parsing, value conversion, printing.  All
   semantics (AM step, abstraction, invariant, agreement) are extracted code. *)
type ostring = string
open Extracted

let rec pos_of_int i = if i = 1 then XH else if i land 1 = 1 then XI (pos_of_int (i lsr 1)) else XO (pos_of_int (i lsr 1))
let n_of_int i = if i = 0 then N0 else Npos (pos_of_int i)
let rec int_of_pos = function XH -> 1 | XO p -> 2 * int_of_pos p | XI p -> 2 * int_of_pos p + 1
let int_of_n = function N0 -> 0 | Npos p -> int_of_pos p

let ten = n_of_int 10
let n_of_string s =
  let r = ref N0 in
  String.iter (fun c -> r := N.add (N.mul !r ten) (n_of_int (Char.code c - 48))) s; !r

let byte_tab = Array.init 256 (fun i -> byte_of_N (n_of_int i))
let hexv c = match c with '0'..'9' -> Char.code c - 48 | 'a'..'f' -> Char.code c - 87 | 'A'..'F' -> Char.code c - 55 | _ -> failwith "hex"
let bytes_of_hex s =
  if s = "-" then [] else begin
    let n = String.length s / 2 in
    let r = ref [] in
    for i = n - 1 downto 0 do
      r := byte_tab.(hexv s.[2*i] * 16 + hexv s.[2*i+1]) :: !r
    done; !r end

let split_on c s = String.split_on_char c s

let parse_time s =
  if s = "d" then DontChange else if s = "s" then ServerTime
  else match split_on ':' s with
    | [_; a; b] -> ClientTime (n_of_string a, n_of_string b)
    | _ -> failwith "time"

let parse_oattrs s =
  match split_on ':' s with
  | [ft; sz; fid; as_; an; ms; mn; nl] ->
    { oa_ftype = n_of_string ft; oa_size = n_of_string sz; oa_fileid = n_of_string fid;
      oa_atime = (n_of_string as_, n_of_string an); oa_mtime = (n_of_string ms, n_of_string mn);
      oa_nlink = n_of_string nl }
  | _ -> failwith ("oattrs " ^ s)

let stable_of s = match s with "0" -> Some Unstable | "1" -> Some DataSync | "2" -> Some FileSync | _ -> None

(* C <id> <proc> args *)
let parse_call toks =
  match toks with
  | _ :: "getattr" :: h :: _ -> CGetattr (bytes_of_hex h)
  | _ :: "setattr" :: h :: sz :: at :: mt :: _ ->
    CSetattr (bytes_of_hex h, (if sz = "-" then None else Some (n_of_string sz)), parse_time at, parse_time mt)
  | _ :: "lookup" :: h :: n :: _ -> CLookup (bytes_of_hex h, bytes_of_hex n)
  | _ :: "access" :: h :: _ -> CAccess (bytes_of_hex h)
  | _ :: "readlink" :: h :: _ -> CReadlink (bytes_of_hex h)
  | _ :: "read" :: h :: off :: cnt :: _ -> CRead (bytes_of_hex h, n_of_string off, n_of_string cnt)
  | _ :: "write" :: h :: off :: cnt :: stb :: d :: _ ->
    (match stable_of stb with
     | Some st -> CWrite (bytes_of_hex h, n_of_string off, n_of_string cnt, st, bytes_of_hex d)
     | None -> failwith "bad stable_how in trace (generator must not produce it)")
  | _ :: "create" :: h :: n :: mode :: _ -> CCreate (bytes_of_hex h, bytes_of_hex n, mode = "2")
  | _ :: "mkdir" :: h :: n :: _ -> CMkdir (bytes_of_hex h, bytes_of_hex n)
  | _ :: "symlink" :: h :: n :: d :: _ -> CSymlink (bytes_of_hex h, bytes_of_hex n, bytes_of_hex d)
  | _ :: "remove" :: h :: n :: _ -> CRemove (bytes_of_hex h, bytes_of_hex n)
  | _ :: "rmdir" :: h :: n :: _ -> CRmdir (bytes_of_hex h, bytes_of_hex n)
  | _ :: "rename" :: h :: n :: h2 :: n2 :: _ -> CRename (bytes_of_hex h, bytes_of_hex n, bytes_of_hex h2, bytes_of_hex n2)
  | _ :: "readdir" :: h :: c :: _ -> CReaddir (bytes_of_hex h, n_of_string c)
  | _ :: "readdirplus" :: h :: c :: _ -> CReaddir (bytes_of_hex h, n_of_string c)
  | _ :: "commit" :: h :: off :: cnt :: _ -> CCommit (bytes_of_hex h, n_of_string off, n_of_string cnt)
  | _ :: "fsinfo" :: h :: _ -> CFsinfo (bytes_of_hex h)
  | _ :: "pathconf" :: h :: _ -> CPathconf (bytes_of_hex h)
  | _ :: ("mknod" | "link" | "fsstat") :: _ -> CUnsupported
  | _ :: "null" :: _ -> CNull
  | _ :: "restart" :: _ -> CRestart
  | _ -> failwith ("call: " ^ String.concat " " toks)

let rec parse_ents n toks acc =
  if n = 0 then List.rev acc else
  match toks with
  | fid :: name :: cookie :: plus :: rest ->
    let p = if plus = "-" then None else
        (match split_on ',' plus with
         | [h; a] -> Some (bytes_of_hex h, parse_oattrs a)
         | _ -> failwith "plus") in
    parse_ents (n - 1) rest ({ de_fileid = n_of_string fid; de_name = bytes_of_hex name;
                                de_cookie = n_of_string cookie; de_plus = p } :: acc)
  | _ -> failwith "ents"

(* returns the observed reply and, for written/commit, the verifier *)
let parse_reply toks =
  match toks with
  | "st" :: c :: _ -> OStatus (n_of_string c), None
  | "attrs" :: c :: a :: _ -> OAttrs (n_of_string c, parse_oattrs a), None
  | "handle" :: c :: h :: a :: _ -> OHandle (n_of_string c, bytes_of_hex h, parse_oattrs a), None
  | "data" :: c :: d :: eof :: _ -> OData (n_of_string c, bytes_of_hex d, eof = "1"), None
  | "written" :: c :: cnt :: cm :: verf :: a :: _ ->
    OWritten (n_of_string c, n_of_string cnt, n_of_string cm, parse_oattrs a), Some verf
  | "link" :: c :: d :: _ -> OLink (n_of_string c, bytes_of_hex d), None
  | "dir" :: c :: eof :: n :: rest -> ODir (n_of_string c, parse_ents (int_of_string n) rest [], eof = "1"), None
  | "fsinfo" :: c :: w :: m :: _ -> OFsinfo (n_of_string c, n_of_string w, n_of_string m), None
  | "pathconf" :: c :: nm :: _ -> OPathconf (n_of_string c, n_of_string nm), None
  | "commit" :: c :: verf :: _ -> OStatus (n_of_string c), Some verf
  | _ -> failwith ("reply: " ^ String.concat " " toks)

let show_status = function OK -> "OK" | STALE -> "STALE" | NOTSUPP -> "NOTSUPP" | ERR -> "ERR"
let show_reply = function
  | RStatus s -> "status:" ^ show_status s
  | RAttrs _ -> "attrs" | RHandle _ -> "handle" | RData (d, _) -> Printf.sprintf "data[%d]" (List.length d)
  | RWritten (c, _, _) -> Printf.sprintf "written[%d]" (int_of_n c) | RLink _ -> "link"
  | RDir (i, _) -> Printf.sprintf "dir#%d" (int_of_n i) | RFsinfo (w, m) -> Printf.sprintf "fsinfo(%d,%d)" (int_of_n w) (int_of_n m)
  | RPathconf n -> Printf.sprintf "pathconf(%d)" (int_of_n n)

let i = int_of_n
let show_err = function
  | EBadPtr (a, b) -> Printf.sprintf "BadPtr(%d,%d)" (i a) (i b)
  | EDupBlock b -> Printf.sprintf "DupBlock(%d)" (i b)
  | EBitClear b -> Printf.sprintf "BitClear(%d)" (i b)
  | EBitSetUnowned b -> Printf.sprintf "BitSetUnowned(%d)" (i b)
  | ENonZeroFree b -> Printf.sprintf "NonZeroFree(%d)" (i b)
  | EBitmapFixed -> "BitmapFixed"
  | EInodeBit a -> Printf.sprintf "InodeBit(%d)" (i a)
  | EInodeLeak a -> Printf.sprintf "InodeLeak(%d)" (i a)
  | EInodeBitFree a -> Printf.sprintf "InodeBitFree(%d)" (i a)
  | EDot a -> Printf.sprintf "Dot(%d)" (i a)
  | EDotDot a -> Printf.sprintf "DotDot(%d)" (i a)
  | EDangling (a, b) -> Printf.sprintf "Dangling(%d,%d)" (i a) (i b)
  | EDupName a -> Printf.sprintf "DupName(%d)" (i a)
  | EBadName a -> Printf.sprintf "BadName(%d)" (i a)
  | EDirSize a -> Printf.sprintf "DirSize(%d)" (i a)
  | ETwoNames a -> Printf.sprintf "TwoNames(%d)" (i a)
  | ETooBig a -> Printf.sprintf "TooBig(%d)" (i a)
  | EBeyondSize (a, b) -> Printf.sprintf "BeyondSize(%d,%d)" (i a) (i b)
  | ETailNonZero a -> Printf.sprintf "TailNonZero(%d)" (i a)
  | EKind a -> Printf.sprintf "Kind(%d)" (i a)
  | EGen a -> Printf.sprintf "Gen(%d)" (i a)
  | ENlink a -> Printf.sprintf "Nlink(%d)" (i a)
  | EFreeOwns a -> Printf.sprintf "FreeOwns(%d)" (i a)
  | EFuel -> "Fuel"
let show_mm = function
  | MMissing a -> Printf.sprintf "Missing(%d)" (i a)
  | MExtra a -> Printf.sprintf "Extra(%d)" (i a)
  | MKind a -> Printf.sprintf "Kind(%d)" (i a)
  | MGen a -> Printf.sprintf "Gen(%d)" (i a)
  | MSize a -> Printf.sprintf "Size(%d)" (i a)
  | MParent a -> Printf.sprintf "Parent(%d)" (i a)
  | MEnts a -> Printf.sprintf "Ents(%d)" (i a)
  | MData (a, c) -> Printf.sprintf "Data(%d,%d)" (i a) (i c)
  | MTime a -> Printf.sprintf "Time(%d)" (i a)

let take k l = let rec go k l acc = if k = 0 then List.rev acc else match l with [] -> List.rev acc | x :: r -> go (k-1) r (x :: acc) in go k l []

let main_seq file do_abs =
  let ic = open_in file in
  let params = ref { p_name_max = N0; p_maxfilesize = N0; p_wtmax = N0; p_ninode = N0 } in
  let sz = ref N0 in
  let st = ref (init_afs true) in
  let disk = ref empty_disk in
  let call = ref None and callname = ref "" and callid = ref "" in
  let oreply = ref None in
  let verfs = ref [] in
  let alloc = ref (0, 0, true) in
  let prev_free = ref (0, 0) in
  let kinodes = ref [] and kdirs = ref [] in
  let ltrace = ref [] in
  let enum = ref None in
  let calltoks = ref [] in
  let dirty = ref true and last_abs = ref ("", 0, 0, true) and last_counts = ref (0, 0) in
  let ntxn_total = ref 0 and nacq_total = ref 0 in
  let nsteps = ref 0 in
  (* decoded slots of every directory at the last checkpoint, and the step it was taken at (DirModel.step_ok_b) *)
  let slot_tab = ref [] and slot_step = ref (-10) and slot_note = ref "" in
  let lazy_step = ref false in   (* Q: the shrinker may be running, no dump was taken: reply only *)
  let rtmax = ref 0 in
  (try
     while true do
       let line = input_line ic in
       let toks = split_on ' ' line in
       match toks with
       | "Q" :: _ -> lazy_step := true
       | "I" :: s :: un :: nm :: mfs :: wt :: ni :: _ ->
         sz := n_of_string s;
         params := { p_name_max = n_of_string nm; p_maxfilesize = n_of_string mfs;
                     p_wtmax = n_of_string wt; p_ninode = n_of_string ni };
         st := init_afs (un = "1");
         (match toks with _ :: _ :: _ :: _ :: _ :: _ :: _ :: rt :: _ -> rtmax := int_of_string rt | _ -> ());
         Printf.printf "INIT size=%s name_max=%s maxfilesize=%s wtmax=%s\n" s nm mfs wt;
         (* the announced limits against the constants of the code (Gen/GenConsts.v) *)
         if not (limits_plausible (n_of_string nm) (n_of_string mfs)) then
           Printf.printf "S 0 limits REPLY=0 NABS=0 NWF=0 ALLOC=1 expected=announced-limits-within-code-constants observed_code=0 name_max=%s maxfilesize=%s\n" nm mfs
       | "U" :: b :: _ -> st := set_unstable !st (b = "1")
       | "C" :: rest ->
         (match rest with id :: nm :: _ -> callid := id; callname := nm | _ -> ());
         calltoks := rest;
         call := Some (parse_call rest)
       | "R" :: rest ->
         let (o, v) = parse_reply rest in
         oreply := Some o;
         (match v with Some v -> verfs := v :: !verfs | None -> ())
       | "D" :: a :: d :: _ ->
         let b = if d = "z" then zeros (n_of_int 4096) else bytes_of_hex d in
         dirty := true;
         disk := disk_set !disk (n_of_string a) b
       | "A" :: fb :: fi :: q :: _ -> alloc := (int_of_string fb, int_of_string fi, q = "1")
       | "M" :: "enum-begin" :: id :: _ -> enum := Some (id, ref [], ref None, ref [])
       | "M" :: "enum-end" :: id :: how :: _ ->
         (match !enum with
          | Some (_, seen, first, bad) ->
            if how = "stuck" then bad := "no-progress" :: !bad;
            if how = "overrun" then bad := "does-not-terminate" :: !bad;
            (match !first with
             | Some (di, names0) when how = "eof" ->
               (* every entry that was in the directory throughout must have been returned *)
               let now = enum_names !st di in
               List.iter (fun nm -> if List.mem nm now && not (List.mem nm !seen) then
                             bad := ("missed:" ^ String.concat "" (List.map (fun b -> Printf.sprintf "%02x" (int_of_n (Extracted.to_N b))) nm)) :: !bad) names0
             | _ -> ());
            if !bad <> [] then
              Printf.printf "S e%s enum REPLY=0 NABS=0 NWF=0 ALLOC=1 expected=enumeration:%s observed_code=0\n" id (String.concat "," (List.rev !bad))
            else Printf.printf "S e%s enum REPLY=1 NABS=0 NWF=0 ALLOC=1\n" id
          | None -> ());
         enum := None
       | "W" :: id :: res :: rest ->
         if res = "same" then Printf.printf "S w%s twin REPLY=1 NABS=0 NWF=0 ALLOC=1\n" id
         else Printf.printf "S w%s twin REPLY=0 NABS=0 NWF=0 ALLOC=1 expected=restart-equivalence observed_code=0 twin=%s\n" id (String.concat "_" rest)
       | "L" :: rest -> ltrace := rest
       | "K" :: i :: enc :: _ -> kinodes := (n_of_string i, bytes_of_hex enc) :: !kinodes
       | "KD" :: i :: _ :: n :: rest ->
         let rec ents k l acc = if k = 0 then acc else match l with
             | nm :: inum :: off :: r -> ents (k - 1) r (((bytes_of_hex nm, n_of_string inum), n_of_string off) :: acc)
             | _ -> acc in
         kdirs := (n_of_string i, ents (int_of_string n) rest []) :: !kdirs
       | "X" :: _ -> Printf.printf "S %s %s PANIC\n" !callid !callname
       | "E" :: _ ->
         incr nsteps;
         let (fb, fi, quiescent) = !alloc in
         let do_abs = do_abs && not !lazy_step in
         if !lazy_step then dirty := true;
         lazy_step := false;
         let reply_ok, detail =
           match !call, !oreply with
           | Some c, Some o ->
             let h = hint_of c o in
             let (s', r) = step !params !st c h in
             if s' != !st then dirty := true;
             st := s';
             let (pfb, pfi) = !prev_free in
             (* an out-of-space answer is believed only when space really is short *)
             (match !enum, r, o with
              | Some (_, seen, first, bad), RDir (di, _), ODir (N0, ents, _) ->
                if !first = None then first := Some (di, enum_names s' di);
                List.iter (fun e -> if List.mem e.de_name !seen then (if not (List.mem "duplicate" !bad) then bad := "duplicate" :: !bad)
                            else seen := e.de_name :: !seen) ents
              | _ -> ());
             let ok = agree s' r o &&
                      (match h, r with
                       | HShort _, RWritten _ -> nospace_plausible !params.p_wtmax c (n_of_int pfb) (n_of_int pfi)
                       | HNoSpace, RStatus ERR ->
                         let (s2, r2) = step !params !st c HNone in
                         ignore s2;
                         (match r2 with RStatus ERR | RStatus STALE | RStatus NOTSUPP -> true
                                      | _ -> nospace_plausible !params.p_wtmax c (n_of_int pfb) (n_of_int pfi))
                       | _ -> true) in
             let diag = match r, o with
               | RData (dd, _), OData (N0, od, _) ->
                 let rec pre a b k = match a, b with
                   | _, [] -> Printf.sprintf " short-read got=%d want=%d prefix=1 free=%d nospace=%d" (List.length od) (List.length dd) pfb
                                (if pfb < List.length dd / 4096 + 4 then 1 else 0)
                   | x :: a', y :: b' -> if x = y then pre a' b' (k+1) else Printf.sprintf " data-differs at=%d" k
                   | [], _ -> " long-read" in
                 if List.length od < List.length dd then pre dd od 0
                 else if List.length od > List.length dd then " long-read"
                 else pre dd od 0
               | _ -> "" in
             ok, (if ok then "" else Printf.sprintf " expected=%s observed_code=%d%s" (show_reply r) (int_of_n (code_of o)) diag)
           | _ -> true, "" in
         let abs_s, nabs, nwf, alloc_ok =
           if do_abs && not !dirty && !kinodes = [] && !kdirs = [] && (let (_, _, _, a) = !last_abs in a) then begin
             (* disk and reference unchanged: only the in-memory allocators can have moved *)
             let (dfb, dfi) = !last_counts in
             slot_step := !nsteps;
             if (not quiescent) || (dfb = fb && dfi = fi) then !last_abs
             else (Printf.sprintf " alloc=mem(%d,%d)/disk(%d,%d)" fb fi dfb dfi, 0, 0, false)
           end
           else if do_abs then begin
             dirty := false;
             let ar = abs_disk !params.p_name_max !params.p_maxfilesize !sz quiescent !disk in
             let mm = cmp_state !st ar in
             (* between two consecutive checkpoints no directory shrinks and no entry changes its slot *)
             let tab = if List.length ar.r_objs > 4000 then [] else dir_slot_table !sz !disk ar in
             if !slot_step = !nsteps - 1 then begin
               match slots_moved !slot_tab tab with
               | [] -> ()
               | i :: _ -> slot_note := Printf.sprintf " pagemodel=differs slotmoved=%d" (int_of_n i)
             end;
             slot_tab := tab; slot_step := !nsteps;
             let l = mk_layout !sz in
             let total_data = int_of_n !sz - int_of_n l.l_dstart in
             let disk_fb = total_data - int_of_n ar.r_used_blocks in
             let disk_fi = int_of_n l.l_ninode - int_of_n ar.r_used_inodes in
             let cache_bad =
               List.filter_map (fun (i, enc) -> if cached_inode_ok !sz !disk i enc then None else Some (Printf.sprintf "inode(%d)" (int_of_n i))) !kinodes @
               List.filter_map (fun (i, ents) -> if name_cache_ok !sz !disk i ents then None else Some (Printf.sprintf "names(%d)" (int_of_n i))) !kdirs in
             kinodes := []; kdirs := [];
             let aok = ((not quiescent) || (disk_fb = fb && disk_fi = fi)) && cache_bad = [] in
             let s = (if mm = [] then "" else " abs=" ^ String.concat "," (List.map show_mm (take 6 mm))) ^
                     (if ar.r_errs = [] then "" else " wf=" ^ String.concat "," (List.map show_err (take 6 ar.r_errs))) ^
                     (if cache_bad <> [] then " alloc=cache:" ^ String.concat "," (take 4 cache_bad)
                      else if aok then "" else Printf.sprintf " alloc=mem(%d,%d)/disk(%d,%d)" fb fi disk_fb disk_fi) in
             last_counts := (disk_fb, disk_fi);
             last_abs := (s, List.length mm, List.length ar.r_errs, aok);
             !last_abs
           end else "", 0, 0, true in
         (* READDIR page = slot-model page (only when the reply is OK and the cookie is slot-aligned) *)
         let detail =
           match !calltoks, !oreply with
           | _ :: "readdir" :: _ :: cookie :: count :: _, Some (ODir (N0, ents, eof)) when do_abs ->
             (match !call with
              | Some (CReaddir (h, _)) ->
                (match parse_handle h with
                 | Some (i, _) ->
                   if readdir_matches_model !sz !disk i (n_of_string cookie) (n_of_string count) ents eof then detail
                   else detail ^ " pagemodel=differs"
                 | None -> detail)
              | _ -> detail)
           | _ :: "readdirplus" :: _ :: cookie :: dircount :: maxcount :: _, Some (ODir (N0, ents, eof)) when do_abs ->
             (match !call with
              | Some (CReaddir (h, _)) ->
                (match parse_handle h with
                 | Some (i, _) ->
                   if readdirplus_matches_model !sz !disk i (n_of_string cookie) (n_of_string dircount) (n_of_string maxcount) ents eof then detail
                   else detail ^ " pagemodel=differs"
                 | None -> detail)
              | _ -> detail)
           | _ -> detail in
         let detail = detail ^ !slot_note in
         slot_note := "";
         let illformed (n : byte0 list) = n = [] || List.exists (fun b -> let v = int_of_n (Extracted.to_N b) in v = 0x2f || v = 0) n in
         let detail = match !call with
           | Some (CCreate (_, n, _)) | Some (CMkdir (_, n)) | Some (CSymlink (_, n, _)) | Some (CRename (_, _, _, n)) when illformed n && not reply_ok -> detail ^ " name=illformed"
           | _ -> detail in
         let detail = match !call, !oreply with
           | Some (CRead _), Some (OData (N0, od, _)) when !rtmax > 0 && List.length od > !rtmax ->
             detail ^ Printf.sprintf " note=count-not-clamped(got=%d,rtmax=%d)" (List.length od) !rtmax
           | _ -> detail in
         let reply_ok = reply_ok && not (String.length detail >= 17 && (try ignore (Str.search_forward (Str.regexp_string "pagemodel=differs") detail 0); true with Not_found -> false)) in
         (* R-trace: lock/commit discipline of every transaction of this RPC *)
         let trace_bad =
           if !ltrace = [] || !ltrace = ["-"] then [] else begin
             let tbl = Hashtbl.create 4 in
             let order = ref [] in
             List.iter (fun tok ->
                 if String.length tok >= 2 then begin
                   let k = tok.[0] in
                   let body = String.sub tok 1 (String.length tok - 1) in
                   let (t, a) = match split_on ':' body with [t; a] -> (t, a) | [t] -> (t, "0") | _ -> ("0", "0") in
                   let ev = match k with
                     | 'a' -> Some (TAcq (n_of_string a)) | 'r' -> Some (TRel (n_of_string a))
                     | 'c' -> Some (TCommit (a = "1")) | 'd' -> Some (TCommitted (a = "1"))
                     | 'x' -> Some TAbort | 'f' -> Some TFlush | 'g' -> Some (TFlushed (a = "1"))
                     | 'n' -> Some (TFresh (n_of_string a)) | _ -> None in
                   (match ev with
                    | Some e ->
                      if not (Hashtbl.mem tbl t) then order := t :: !order;
                      Hashtbl.replace tbl t (e :: (try Hashtbl.find tbl t with Not_found -> []))
                    | None -> ())
                 end) !ltrace;
             let txns = List.rev_map (fun t -> List.rev (Hashtbl.find tbl t)) !order in
             ntxn_total := !ntxn_total + List.length txns;
             let bad = ref [] in
             List.iteri (fun i evs ->
                 nacq_total := !nacq_total + List.length (List.filter (function TAcq _ -> true | _ -> false) evs);
                 if not (asc_f [] [] evs) then bad := Printf.sprintf "lock-order(txn%d:%s)" i
                       (String.concat ">" (List.filter_map (function TAcq i -> Some (string_of_int (int_of_n i)) | _ -> None) evs)) :: !bad;
                 if not (commit_phase_b N0 evs) then bad := Printf.sprintf "commit-phase(txn%d)" i :: !bad;
                 if not (balanced_b [] evs) then bad := Printf.sprintf "lock-leak(txn%d)" i :: !bad;
                 (* every commit of a procedure other than an UNSTABLE write waits for the journal *)
                 let unwaited = List.exists (fun w -> not w) (waits evs) in
                 let is_unstable_write = (!callname = "write") && (match !oreply with Some (OWritten (N0, _, N0, _)) -> true | Some (OWritten _) -> false | _ -> true) in
                 if unwaited && not is_unstable_write then bad := Printf.sprintf "unwaited-commit(txn%d)" i :: !bad) txns;
             if List.length txns > 64 then bad := Printf.sprintf "retries(%d)" (List.length txns) :: !bad;
             !bad
           end in
         ltrace := [];
         Printf.printf "S %s %s REPLY=%d NABS=%d NWF=%d ALLOC=%d%s%s%s\n" !callid !callname
           (if reply_ok then 1 else 0) nabs nwf (if alloc_ok then 1 else 0) detail abs_s
           (if trace_bad = [] then "" else " trace=" ^ String.concat "," trace_bad);
         prev_free := (fb, fi);
         call := None; oreply := None; callname := "init"; callid := "0"
       | _ -> ()
     done
   with End_of_file -> ());
  let vs = List.sort_uniq compare !verfs in
  Printf.printf "DONE steps=%d verfs=%s txns=%d acquires=%d\n" !nsteps (String.concat "," vs) !ntxn_total !nacq_total


(* ---------- C15: fresh images of many sizes against the generated layout + mkfs model ---------- *)
let parse_rle s =
  if s = "-" then [] else
  List.map (fun t -> match split_on ':' t with
      | [a; l; v] -> (int_of_string a, int_of_string l, v = "1") | _ -> failwith "rle") (split_on ',' s)

let main_c15 file full =
  let ic = open_in file in
  let nok = ref 0 and nbad = ref 0 and nacc = ref 0 in
  (try while true do
      let line = input_line ic in
      match split_on '|' line with
      | hd :: rest ->
        let t = List.filter (fun x -> x <> "") (split_on ' ' hd) in
        (match t with
         | "Z" :: szs :: acc :: fields ->
           let sz = n_of_string szs in
           let fs = mkFsSuper sz in
           let macc = markAlloc_sane fs in
           let bad = ref [] in
           let add s = bad := s :: !bad in
           if macc <> (acc = "1") then add (Printf.sprintf "accept:model=%b impl=%s" macc acc);
           if acc = "1" && macc then begin
             incr nacc;
             (match fields with
              | bbs :: nbb :: bis :: is :: ds :: ni :: mb :: fb :: fi :: rootblk :: ablk :: aoff :: _ ->
                let chk name m v = if int_of_n m <> int_of_string v then add (Printf.sprintf "%s:model=%d impl=%s" name (int_of_n m) v) in
                chk "BitmapBlockStart" (bitmapBlockStart fs) bbs; chk "NBlockBitmap" (nBlockBitmap fs) nbb;
                chk "BitmapInodeStart" (bitmapInodeStart fs) bis; chk "InodeStart" (inodeStart fs) is;
                chk "DataStart" (dataStart fs) ds; chk "NInode" (nInode fs) ni; chk "MaxBnum" (maxBnum fs) mb;
                let (ab, ao) = inum2Addr fs (n_of_int 7) in
                chk "Inum2Addr.blk" ab ablk; chk "Inum2Addr.off" ao aoff;
                let rb = int_of_string rootblk in
                let hasroot = rb <> 0 in
                let ffb = int_of_n (fresh_free_blocks fs) - (if hasroot then 1 else 0) in
                if ffb <> int_of_string fb then add (Printf.sprintf "freeblocks:model=%d impl=%s" ffb fb);
                if int_of_n (fresh_free_inodes fs) <> int_of_string fi then add "freeinodes";
                if hasroot && not (rb >= int_of_n (dataStart fs) && rb < int_of_n sz) then add "rootblk-outside-data";
                if not hasroot then add "accepted-but-root-directory-not-created";
                (match rest with
                 | r1 :: r2 :: more ->
                   let nbits = int_of_n (nBlockBitmap fs) * 32768 in
                   let expect b = mk_bit fs (n_of_int b) || (hasroot && b = rb) in
                   let pos = ref 0 in
                   List.iter (fun (a, l, v) ->
                       if a <> !pos then add "rle-gap";
                       pos := a + l;
                       let pts = if full then List.init l (fun k -> a + k) else [a; a + l - 1; a + l / 2; a + 1; a + l - 2] in
                       List.iter (fun b -> if b >= a && b < a + l && expect b <> v then add (Printf.sprintf "bit%d:model=%b impl=%b" b (expect b) v)) pts)
                     (parse_rle (String.trim r1));
                   if !pos <> nbits then add "rle-length";
                   let ipos = ref 0 in
                   List.iter (fun (a, l, v) ->
                       if a <> !ipos then add "irle-gap"; ipos := a + l;
                       List.iter (fun b -> if b >= a && b < a + l && mk_ibit (n_of_int b) <> v then add (Printf.sprintf "ibit%d" b)) [a; a + l - 1])
                     (parse_rle (String.trim r2));
                   (match more with
                    | f :: _ ->
                      (match List.filter (fun x -> x <> "") (split_on ' ' f) with
                       | used :: freed :: _ :: freeafter :: more2 ->
                         (* every free block could be allocated, and deleting everything frees them all again
                            (except the blocks the root directory itself grew into while holding the files' names) *)
                         let rootgrow = match more2 with g :: _ -> int_of_string g | [] -> 0 in
                         if int_of_string used <> ffb then add (Printf.sprintf "fill:allocated=%s of %d" used ffb);
                         if int_of_string freeafter + rootgrow <> ffb then add (Printf.sprintf "fill:free-after-delete=%s+%d of %d" freeafter rootgrow ffb);
                         (match more2 with
                          | _ :: diskfree :: restartfree :: _ ->
                            if int_of_string diskfree + rootgrow <> ffb then add (Printf.sprintf "fill:free-on-disk-after-delete=%s+%d of %d" diskfree rootgrow ffb);
                            if int_of_string restartfree + rootgrow <> ffb then add (Printf.sprintf "fill:free-after-restart=%s+%d of %d" restartfree rootgrow ffb)
                          | _ -> ());
                         ignore freed
                       | _ -> ())
                    | [] -> ())
                 | _ -> add "no-bitmaps")
              | _ -> add "short-line")
           end;
           (* the boolean twins of the theorems, on the regenerated model *)
           if not (layout_ok_b sz) then add "layout_ok_b=false";
           if !bad = [] then (incr nok; Printf.printf "Z %s OK acc=%s\n" szs acc)
           else (incr nbad; Printf.printf "Z %s BAD %s\n" szs (String.concat " " (List.rev !bad)))
         | _ -> ())
      | [] -> ()
    done with End_of_file -> ());
  Printf.printf "DONE ok=%d bad=%d accepted=%d\n" !nok !nbad !nacc


(* ---------- crash images: C01 C07 (and the WAL recovery model) ---------- *)
let raw_of_hex s = String.init (String.length s / 2) (fun i -> Char.chr (hexv s.[2*i] * 16 + hexv s.[2*i+1]))

(* per-block digests, found again by physical identity of the byte list *)
let blk_tbl : (int, (byte0 list * ostring)) Hashtbl.t = Hashtbl.create 4096
let weak_key (l : byte0 list) = Hashtbl.hash l
let register_block l hexs =
  Hashtbl.add blk_tbl (weak_key l) (l, Digest.to_hex (Digest.string (raw_of_hex hexs)))
let block_digest l =
  match List.find_opt (fun (l', _) -> l' == l) (Hashtbl.find_all blk_tbl (weak_key l)) with
  | Some (_, d) -> d
  | None ->
    let b = Bytes.create (List.length l) in
    List.iteri (fun i x -> Bytes.set b i (Char.chr (int_of_n (Extracted.to_N x)))) l;
    Digest.to_hex (Digest.bytes b)

let logical_digest (d : disk) =
  let l = List.map (fun (a, b) -> (int_of_n a, b)) (fs_part d) in
  let l = List.sort (fun (a, _) (b, _) -> compare a b) l in
  let buf = Buffer.create 4096 in
  List.iter (fun (a, b) -> Buffer.add_string buf (Printf.sprintf "%d:%s;" a (block_digest b))) l;
  Digest.to_hex (Digest.string (Buffer.contents buf))

type ev = EvB | EvW of n * byte0 list

let main_crash file =
  let ic = open_in file in
  let params = ref { p_name_max = N0; p_maxfilesize = N0; p_wtmax = N0; p_ninode = N0 } in
  let sz = ref N0 in
  let base = ref empty_disk in
  let states = ref [||] in       (* S_0 .. S_N *)
  let st_list = ref [] in
  let cur = ref (init_afs true) in
  let ops = ref [] in            (* (id, s, e, dur) in order *)
  let evs = ref [] in
  let call = ref None and oreply = ref None in
  let in_g = ref false in
  let g_hdr = ref ("", "", "", "", 0, 0) in
  let g_steps = ref [] in
  let g_post = ref [] and g_post_alloc = ref None in   (* the blocks written after the cut, as they read after the suffix *)
  let nimg = ref 0 and nok = ref 0 and nbad = ref 0 in
  let evarr = ref [||] in
  (* incremental image at the last barrier *)
  let img_b = ref empty_disk and img_b_idx = ref 0 in
  let kdist = Hashtbl.create 16 in
  let main_verfs = ref [] and g_verfs = ref [] in
  let finish_main () =
    states := Array.of_list (List.rev !st_list);
    evarr := Array.of_list (List.rev !evs);
    img_b := !base; img_b_idx := 0 in
  let judge_image () =
    let (ns, pat, status, dg, fb, fi) = !g_hdr in
    let n = int_of_string ns in
    incr nimg;
    let ev = !evarr in
    (* advance the barrier image *)
    let last = ref !img_b_idx in
    for i = !img_b_idx to n - 1 do
      (match ev.(i) with EvB -> last := i + 1 | _ -> ())
    done;
    for i = !img_b_idx to !last - 1 do
      (match ev.(i) with EvW (a, b) -> img_b := disk_set !img_b a b | EvB -> ())
    done;
    img_b_idx := !last;
    (* apply the un-barriered window according to the pattern *)
    let drop k = match pat.[0] with
      | '-' -> false
      | 's' -> k = int_of_string (String.sub pat 1 (String.length pat - 1))
      | 'm' -> let m = Int64.of_string ("0x" ^ String.sub pat 1 (String.length pat - 1)) in
        k < 63 && Int64.logand m (Int64.shift_left 1L k) <> 0L
      | _ -> false in
    let img = ref !img_b in
    let k = ref 0 in
    for i = !last to n - 1 do
      (match ev.(i) with
       | EvW (a, b) -> (if not (drop !k) then img := disk_set !img a b); incr k
       | EvB -> ())
    done;
    let bad = ref [] in
    let add s = bad := s :: !bad in
    (* the acknowledgement window *)
    let lo = ref 0 and hi = ref 0 in
    List.iteri (fun idx (_, s, e, dur) ->
        if s <= n && (s < n || true) then (if s <= n then hi := max !hi (if s < n || e = s then idx + 1 else idx + 1));
        if e <= n && dur then lo := idx + 1) (List.rev !ops);
    (* an operation that had not started at the cut cannot be visible *)
    let hi' = ref 0 in
    List.iteri (fun idx (_, s, _, _) -> if s < n then hi' := idx + 1) (List.rev !ops);
    ignore hi;
    let hiv = max !hi' !lo in
    if status <> "ok" then add "real-recovery-panicked";
    (* a client must be able to tell that unstable data may be gone: the recovered instance's write
       verifier differs from the one of the instance that crashed *)
    if !main_verfs <> [] && List.exists (fun v -> List.mem v !main_verfs) !g_verfs then add "write-verifier-unchanged-across-crash";
    if List.length (List.sort_uniq compare !main_verfs) > 1 then add "write-verifier-changed-within-one-instance";
    (match recover_log !img with
     | None -> add "model-recover-refuses-header"
     | Some logical ->
       if status = "ok" && logical_digest logical <> dg then add "recovered-disk-differs-from-model-recovery";
       let ar = abs_disk !params.p_name_max !params.p_maxfilesize !sz false logical in
       if ar.r_errs <> [] then add ("wf=" ^ String.concat "," (List.map show_err (take 4 ar.r_errs)));
       let found = ref (-1) in
       let k = ref hiv in
       while !found < 0 && !k >= !lo do
         if cmp_state !states.(!k) ar = [] then found := !k;
         decr k
       done;
       if !found < 0 then begin
         (* diagnose: is it a prefix outside the window, or no prefix at all? *)
         let any = ref (-1) in
         Array.iteri (fun i s -> if !any < 0 && cmp_state s ar = [] then any := i) !states;
         let mm = cmp_state !states.(hiv) ar in
         add (Printf.sprintf "no-prefix-in-window[%d,%d] matches-prefix=%d vs-last:%s" !lo hiv !any
                (String.concat "," (List.map show_mm (take 4 mm))))
       end else begin
         Hashtbl.replace kdist (hiv - !found) (1 + (try Hashtbl.find kdist (hiv - !found) with Not_found -> 0));
         if status = "ok" then begin
           let l = mk_layout !sz in
           let disk_fb = int_of_n !sz - int_of_n l.l_dstart - int_of_n ar.r_used_blocks in
           let disk_fi = int_of_n l.l_ninode - int_of_n ar.r_used_inodes in
           if disk_fb <> fb || disk_fi <> fi then add (Printf.sprintf "alloc-after-recovery=mem(%d,%d)/disk(%d,%d)" fb fi disk_fb disk_fi);
           (* the suffix served by the recovered server *)
           let s = ref !states.(!found) in
           List.iter (fun (nm, c, o) ->
               match c, o with
               | Some c, Some o ->
                 let (s', r) = step !params !s c (hint_of c o) in
                 s := s';
                 if not (agree s' r o) then add (Printf.sprintf "suffix-%s:expected=%s observed_code=%d" nm (show_reply r) (int_of_n (code_of o)))
               | _ -> add ("suffix-" ^ nm ^ ":panic")) (List.rev !g_steps);
           (* the disk the recovered server leaves behind: invariant, abstraction = reference after the suffix, allocators *)
           (match !g_post_alloc with
            | Some (fb2, fi2, quiet) when !bad = [] ->
              let logical2 = List.fold_left (fun d (a, b) -> disk_set d a b) logical (List.rev !g_post) in
              (* quiet: the suffix touched every object whose freeing was cut short, so nothing may be left half freed *)
              let ar2 = abs_disk !params.p_name_max !params.p_maxfilesize !sz quiet logical2 in
              if ar2.r_errs <> [] then add ("post-suffix-wf=" ^ String.concat "," (List.map show_err (take 4 ar2.r_errs)));
              let mm2 = cmp_state !s ar2 in
              if mm2 <> [] then add ("post-suffix-abs=" ^ String.concat "," (List.map show_mm (take 4 mm2)));
              let dfb2 = int_of_n !sz - int_of_n l.l_dstart - int_of_n ar2.r_used_blocks in
              let dfi2 = int_of_n l.l_ninode - int_of_n ar2.r_used_inodes in
              if dfb2 <> fb2 || dfi2 <> fi2 then add (Printf.sprintf "post-suffix-alloc=mem(%d,%d)/disk(%d,%d)" fb2 fi2 dfb2 dfi2)
            | _ -> ())
         end
       end);
    if !bad = [] then (incr nok; Printf.printf "G %s %s OK\n" ns pat)
    else (incr nbad; Printf.printf "G %s %s BAD window=[%d,%d] %s\n" ns pat !lo hiv (String.concat " " (List.rev !bad))) in
  let cname = ref "" in
  (try
     while true do
       let line = input_line ic in
       let toks = split_on ' ' line in
       match toks with
       | "I" :: s :: un :: nm :: mfs :: wt :: ni :: _ ->
         sz := n_of_string s;
         params := { p_name_max = n_of_string nm; p_maxfilesize = n_of_string mfs; p_wtmax = n_of_string wt; p_ninode = n_of_string ni };
         cur := init_afs (un = "1"); st_list := [!cur]
       | "B0" :: a :: d :: _ -> let b = bytes_of_hex d in register_block b d; base := disk_set !base (n_of_string a) b
       | "U" :: b :: _ -> cur := set_unstable !cur (b = "1")
       | "C" :: rest -> (match rest with _ :: nm :: _ -> cname := nm | _ -> ()); call := Some (parse_call rest)
       | "R" :: rest ->
         let (o, v) = parse_reply rest in
         oreply := Some o;
         (match v with
          | Some v -> if !in_g then g_verfs := v :: !g_verfs else main_verfs := v :: !main_verfs
          | None -> ())
       | "X" :: _ -> if !in_g then g_steps := (!cname, None, None) :: !g_steps
       | "E" :: _ ->
         (match !call, !oreply with
          | Some c, Some o ->
            if !in_g then g_steps := (!cname, Some c, Some o) :: !g_steps
            else begin
              let (s', _) = step !params !cur c (hint_of c o) in
              cur := s'
            end
          | _ -> ());
         call := None; oreply := None
       | "T" :: id :: s :: e :: dur :: _ ->
         ops := (id, int_of_string s, int_of_string e, dur = "1") :: !ops;
         st_list := !cur :: !st_list
       | "V" :: "b" :: _ -> evs := EvB :: !evs
       | "V" :: "w" :: a :: d :: _ -> let b = bytes_of_hex d in register_block b d; evs := EvW (n_of_string a, b) :: !evs
       | "G" :: n :: pat :: status :: dg :: fb :: fi :: _ ->
         if Array.length !states = 0 then finish_main ();
         in_g := true; g_steps := []; g_verfs := []; g_post := []; g_post_alloc := None;
         g_hdr := (n, pat, status, dg, int_of_string fb, int_of_string fi)
       | "GD" :: a :: d :: _ ->
         let b = if d = "z" then zeros (n_of_int 4096) else bytes_of_hex d in
         g_post := (n_of_string a, b) :: !g_post
       | "GA" :: fb :: fi :: q :: _ -> g_post_alloc := Some (int_of_string fb, int_of_string fi, q = "1")
       | "GE" :: _ -> judge_image (); in_g := false
       | _ -> ()
     done
   with End_of_file -> ());
  let kd = Hashtbl.fold (fun k v acc -> Printf.sprintf "%d:%d" k v :: acc) kdist [] in
  Printf.printf "DONE images=%d ok=%d bad=%d ops=%d events=%d lost_suffix_hist=%s\n" !nimg !nok !nbad (List.length !ops) (Array.length !evarr) (String.concat "," kd)


(* ---------- SimpleNFS (C17) and KVS (C18): replies and crash images ---------- *)
let nlist_of_hex s = if s = "-" then [] else List.init (String.length s / 2) (fun i -> n_of_int (hexv s.[2*i] * 16 + hexv s.[2*i+1]))
let nblock (b : byte0 list) = List.map Extracted.to_N b

(* shared crash-image plumbing: events, incremental barrier image, pattern application *)
let build_image base evarr img_b img_b_idx n pat =
  let ev = evarr in
  let last = ref !img_b_idx in
  for i = !img_b_idx to n - 1 do (match ev.(i) with EvB -> last := i + 1 | _ -> ()) done;
  for i = !img_b_idx to !last - 1 do (match ev.(i) with EvW (a, b) -> img_b := disk_set !img_b a b | EvB -> ()) done;
  img_b_idx := !last;
  ignore base;
  let drop k = match pat.[0] with
    | '-' -> false
    | 's' -> k = int_of_string (String.sub pat 1 (String.length pat - 1))
    | 'm' -> let m = Int64.of_string ("0x" ^ String.sub pat 1 (String.length pat - 1)) in
      k < 63 && Int64.logand m (Int64.shift_left 1L k) <> 0L
    | _ -> false in
  let img = ref !img_b in
  let k = ref 0 in
  for i = !last to n - 1 do
    (match ev.(i) with EvW (a, b) -> (if not (drop !k) then img := disk_set !img a b); incr k | EvB -> ())
  done;
  !img

let window ops n =
  (* ops: (s, e, durable) in issue order; returns (lo, hi) indices into the state array *)
  let lo = ref 0 and hi = ref 0 in
  List.iteri (fun idx (s, e, dur) -> if s < n then hi := idx + 1; if e <= n && dur then lo := idx + 1) ops;
  (!lo, max !hi !lo)

let main_simple file =
  let ic = open_in file in
  let ss = ref [] (* spec states, newest first *) and cur_s = ref Extracted.simple_empty_s and cur_i = ref Extracted.simple_empty_i in
  let started = ref false in
  let base = ref empty_disk and evs = ref [] and ops = ref [] in
  let q = ref None in
  let nq = ref 0 and nbadq = ref 0 and nimg = ref 0 and nbadimg = ref 0 and nmut = ref 0 in
  let evarr = ref [||] and img_b = ref empty_disk and img_b_idx = ref 0 and states = ref [||] in
  let fin = ref false in
  (try while true do
      let line = input_line ic in
      match split_on ' ' line with
      | "SI" :: _ ->
        (* empty gmaps: obtained from a no-op step on a dummy is not possible; use extracted empties *)
        cur_s := Extracted.simple_empty_s; cur_i := Extracted.simple_empty_i; ss := [!cur_s]; started := true
      | "B0" :: a :: d :: _ -> let b = bytes_of_hex d in register_block b d; base := disk_set !base (n_of_string a) b
      | "Q" :: id :: proc :: h :: off :: cnt :: sz :: data :: _ ->
        let inum = simple_inum_of_handle (nlist_of_hex h) in
        let c = match proc with
          | "getattr" -> SGetattr inum
          | "setattr" -> SSetattr (inum, if sz = "-" then None else Some (n_of_string sz))
          | "read" -> SRead (inum, n_of_string off, n_of_string cnt)
          | _ -> SWrite (inum, n_of_string off, n_of_string cnt, nlist_of_hex data) in
        q := Some (id, proc, c)
      | "P" :: code :: isdir :: size :: count :: eof :: data :: _ ->
        (match !q with
         | Some (id, proc, c) ->
           incr nq;
           let obs = if code <> "0" then SErr else
               (match proc with
                | "getattr" -> SAttr (isdir = "1", n_of_string size)
                | "setattr" -> SOk
                | "read" -> SData (nlist_of_hex data, eof = "1")
                | _ -> SWritten (n_of_string count)) in
           let (s', rs) = sstep !cur_s c in
           let (i', ri) = istep !cur_i c in
           cur_s := s'; cur_i := i';
           (match c, obs with (SSetattr _ | SWrite _), (SOk | SWritten _) -> incr nmut | _ -> ());
           let show = function SErr -> "err" | SAttr (d, z) -> Printf.sprintf "attr(%b,%d)" d (int_of_n z) | SOk -> "ok"
                             | SData (d, e) -> Printf.sprintf "data[%d,%b]" (List.length d) e | SWritten n -> Printf.sprintf "written(%d)" (int_of_n n) in
           if obs = rs && obs = ri then Printf.printf "Q %s %s OK\n" id proc
           else (incr nbadq; Printf.printf "Q %s %s BAD observed=%s spec=%s transliteration=%s\n" id proc (show obs) (show rs) (show ri))
         | None -> ())
      | "X" :: _ -> incr nbadq; Printf.printf "Q ? ? BAD panic\n"
      | "T" :: _ :: s :: e :: _ -> ops := (int_of_string s, int_of_string e, true) :: !ops; ss := !cur_s :: !ss
      | "V" :: "b" :: _ -> evs := EvB :: !evs
      | "V" :: "w" :: a :: d :: _ -> let b = bytes_of_hex d in register_block b d; evs := EvW (n_of_string a, b) :: !evs
      | "G" :: n :: pat :: status :: dg :: _ ->
        if not !fin then begin
          fin := true; evarr := Array.of_list (List.rev !evs); img_b := !base; img_b_idx := 0;
          states := Array.of_list (List.rev !ss) end;
        incr nimg;
        let n = int_of_string n in
        let img = build_image !base !evarr img_b img_b_idx n pat in
        let bad = ref [] in
        if status <> "ok" then bad := "real-recovery-panicked" :: !bad;
        (match recover_log img with
         | None -> bad := "model-recover-refuses-header" :: !bad
         | Some logical ->
           if status = "ok" && logical_digest logical <> dg then bad := "recovered-disk-differs-from-model-recovery" :: !bad;
           let rdn a = nblock (rd logical a) in
           let (lo, hi) = window (List.rev !ops) n in
           let files = List.init 30 (fun k -> let i = n_of_int (k + 2) in (i, simple_abs rdn i)) in
           let matches st = List.for_all (fun (i, f) -> s_file st i = f) files in
           let found = ref false in
           for k = lo to hi do if matches !states.(k) then found := true done;
           if not !found then begin
             let any = ref (-1) in
             Array.iteri (fun k st -> if !any < 0 && matches st then any := k) !states;
             bad := Printf.sprintf "no-prefix-in-window[%d,%d] matches-prefix=%d" lo hi !any :: !bad end);
        if !bad = [] then Printf.printf "G %d %s OK\n" n pat
        else (incr nbadimg; Printf.printf "G %d %s BAD %s\n" n pat (String.concat " " !bad))
      | _ -> ()
    done with End_of_file -> ());
  ignore started;
  Printf.printf "DONE calls=%d badcalls=%d mutating=%d images=%d badimages=%d\n" !nq !nbadq !nmut !nimg !nbadimg

let main_kvs file =
  let ic = open_in file in
  let sz = ref N0 in
  let cur = ref Extracted.kvs_empty in
  let ss = ref [] in
  let base = ref empty_disk and evs = ref [] and ops = ref [] in
  let pending = ref None in
  let nq = ref 0 and nbadq = ref 0 and nimg = ref 0 and nbadimg = ref 0 and nput = ref 0 in
  let evarr = ref [||] and img_b = ref empty_disk and img_b_idx = ref 0 and states = ref [||] in
  let fin = ref false in
  (try while true do
      let line = input_line ic in
      match split_on ' ' line with
      | "KI" :: s :: _ -> sz := n_of_string s; ss := [!cur]
      | "B0" :: a :: d :: _ -> let b = bytes_of_hex d in register_block b d; base := disk_set !base (n_of_string a) b
      | "KG" :: id :: k :: _ -> pending := Some (`Get (id, n_of_string k))
      | "KP" :: id :: n :: rest ->
        let rec prs k l acc = if k = 0 then List.rev acc else match l with
            | key :: v :: r -> prs (k - 1) r ((n_of_string key, bytes_of_hex v) :: acc) | _ -> List.rev acc in
        pending := Some (`Put (id, prs (int_of_string n) rest []))
      | "KR" :: res :: _ ->
        incr nq;
        (match !pending with
         | Some (`Get (id, k)) ->
           let valid = k_valid !sz k in
           let okk = if not valid then res = "panic"
             else (match split_on ' ' line with _ :: "1" :: vh :: _ -> bytes_of_hex vh = kget !cur k | _ -> false) in
           if okk then Printf.printf "K %s get OK\n" id else (incr nbadq; Printf.printf "K %s get BAD key=%d valid=%b result=%s\n" id (int_of_n k) valid res)
         | Some (`Put (id, pairs)) ->
           let valid = kput_ok !sz pairs in
           let okk = if not valid then res = "panic" else res = "1" in
           if valid && res = "1" then (cur := kput !cur pairs; incr nput);
           if okk then Printf.printf "K %s put OK\n" id else (incr nbadq; Printf.printf "K %s put BAD valid=%b result=%s\n" id valid res)
         | None -> ());
        pending := None
      | "T" :: _ :: s :: e :: _ -> ops := (int_of_string s, int_of_string e, true) :: !ops; ss := !cur :: !ss
      | "V" :: "b" :: _ -> evs := EvB :: !evs
      | "V" :: "w" :: a :: d :: _ -> let b = bytes_of_hex d in register_block b d; evs := EvW (n_of_string a, b) :: !evs
      | "GK" :: k :: _ ->
        (* Get on the recovered store, for every key, against its own recovered disk (counted by the harness) *)
        if int_of_string k <> 0 then begin
          incr nbadimg; Printf.printf "G - - BAD recovered-store-get-differs-from-its-disk keys=%s\n" k end
      | "G" :: n :: pat :: status :: dg :: _ ->
        if not !fin then begin
          fin := true; evarr := Array.of_list (List.rev !evs); img_b := !base; img_b_idx := 0;
          states := Array.of_list (List.rev !ss) end;
        incr nimg;
        let n = int_of_string n in
        let img = build_image !base !evarr img_b img_b_idx n pat in
        let bad = ref [] in
        if status <> "ok" then bad := "real-recovery-panicked" :: !bad;
        (match recover_log img with
         | None -> bad := "model-recover-refuses-header" :: !bad
         | Some logical ->
           if status = "ok" && logical_digest logical <> dg then bad := "recovered-disk-differs-from-model-recovery" :: !bad;
           let (lo, hi) = window (List.rev !ops) n in
           let keys = List.init (int_of_n !sz - 513) (fun k -> n_of_int (513 + k)) in
           let matches st = List.for_all (fun k -> kget st k = rd logical k) keys in
           let found = ref false in
           for k = lo to hi do if matches !states.(k) then found := true done;
           if not !found then begin
             let any = ref (-1) in
             Array.iteri (fun k st -> if !any < 0 && matches st then any := k) !states;
             bad := Printf.sprintf "no-prefix-in-window[%d,%d] matches-prefix=%d" lo hi !any :: !bad end);
        if !bad = [] then Printf.printf "G %d %s OK\n" n pat
        else (incr nbadimg; Printf.printf "G %d %s BAD %s\n" n pat (String.concat " " !bad))
      | _ -> ()
    done with End_of_file -> ());
  Printf.printf "DONE calls=%d badcalls=%d puts=%d images=%d badimages=%d\n" !nq !nbadq !nput !nimg !nbadimg


(* concurrent histories of the key-value store (values compared on their first 8 bytes, which carry the put's
   identity): a sequential order respecting real time over the extracted model *)
let main_kvsconc file =
  let ic = open_in file in
  let hist = ref [] and curh = ref None and pending = ref None in
  let pad8 (l : byte0 list) = l in
  (try while true do
      let line = input_line ic in
      match split_on ' ' line with
      | "H" :: c :: i :: r :: _ -> curh := Some (int_of_string c, int_of_string i, int_of_string r)
      | "KG" :: _ :: k :: _ -> pending := Some (`Get (n_of_string k))
      | "KP" :: _ :: n :: rest ->
        let rec prs k l acc = if k = 0 then List.rev acc else match l with
            | key :: v :: r -> prs (k - 1) r ((n_of_string key, bytes_of_hex v) :: acc) | _ -> List.rev acc in
        pending := Some (`Put (prs (int_of_string n) rest []))
      | "KR" :: res :: rest ->
        (match !pending, !curh with
         | Some p, Some (cl, i, r) ->
           let obs = match p, res, rest with
             | `Get _, "1", vh :: _ -> `Val (bytes_of_hex vh)
             | `Put _, "1", _ -> `Ok
             | _ -> `Bad in
           hist := (cl, i, r, p, obs) :: !hist
         | _ -> ());
        pending := None
      | _ -> ()
    done with End_of_file -> ());
  ignore pad8;
  let ops = Array.of_list (List.rev !hist) in
  let n = Array.length ops in
  let nodes = ref 0 and found = ref false and deepest = ref 0 in
  let budget = 400000 in
  let take8 l = take 8 l in
  (* the model state restricted to what is observed: key -> first 8 bytes *)
  (* states already shown to lead nowhere: (set of linearized operations, observed model state) *)
  let dead = Hashtbl.create 4096 in
  let key_of st donev = (String.init n (fun i -> if donev.(i) then '1' else '0'), List.sort compare st) in
  let rec search (st : (n * byte0 list) list) donev k =
    if !found || !nodes > budget || Hashtbl.mem dead (key_of st donev) then () else begin
      incr nodes;
      if k = n then found := true else begin
        let minret = ref max_int in
        Array.iteri (fun i (_, _, r, _, _) -> if not donev.(i) && r < !minret then minret := r) ops;
        Array.iteri (fun i (_, inv, _, p, obs) ->
            if not !found && not donev.(i) && inv < !minret then begin
              let ok, st' = match p, obs with
                | `Get key, `Val v -> (let cur = try List.assoc key st with Not_found -> take8 (zeros (n_of_int 4096)) in cur = v), st
                | `Put pairs, `Ok -> true, List.fold_left (fun acc (key, v) -> (key, take8 v) :: List.remove_assoc key acc) st pairs
                | _ -> false, st in
              if ok then (donev.(i) <- true; search st' donev (k + 1); donev.(i) <- false)
              else if k >= !deepest then deepest := k
            end) ops;
        if not !found && !nodes <= budget then Hashtbl.replace dead (key_of st donev) ()
      end
    end in
  search [] (Array.make n false) 0;
  if !found then Printf.printf "N lin OK ops=%d nodes=%d\n" n !nodes
  else if !nodes > budget then Printf.printf "N lin UNKNOWN ops=%d nodes=%d\n" n !nodes
  else Printf.printf "N lin BAD no-sequential-order-explains-the-history ops=%d nodes=%d deepest=%d\n" n !nodes !deepest;
  Printf.printf "DONE ops=%d\n" n

(* concurrent histories of the simple server: a sequential order respecting real time under which the extracted
   specification gives exactly the observed replies *)
let main_simpleconc file =
  let ic = open_in file in
  let cur_s = ref Extracted.simple_empty_s in
  let q = ref None and phase = ref 0 and curh = ref None in
  let hist = ref [] in
  let parse_q proc h off cnt sz data =
    let inum = simple_inum_of_handle (nlist_of_hex h) in
    match proc with
    | "getattr" -> SGetattr inum
    | "setattr" -> SSetattr (inum, if sz = "-" then None else Some (n_of_string sz))
    | "read" -> SRead (inum, n_of_string off, n_of_string cnt)
    | _ -> SWrite (inum, n_of_string off, n_of_string cnt, nlist_of_hex data) in
  let parse_p proc code isdir size count eof data =
    if code <> "0" then SErr else
      (match proc with
       | "getattr" -> SAttr (isdir = "1", n_of_string size)
       | "setattr" -> SOk
       | "read" -> SData (nlist_of_hex data, eof = "1")
       | _ -> SWritten (n_of_string count)) in
  let npanic = ref 0 in
  (try while true do
      let line = input_line ic in
      match split_on ' ' line with
      | "SI" :: _ -> cur_s := Extracted.simple_empty_s
      | "M" :: "conc-begin" :: _ -> phase := 1
      | "M" :: "conc-end" :: _ -> phase := 2
      | "H" :: c :: i :: r :: _ -> curh := Some (int_of_string c, int_of_string i, int_of_string r)
      | "Q" :: _ :: proc :: h :: off :: cnt :: sz :: data :: _ -> q := Some (proc, parse_q proc h off cnt sz data)
      | "P" :: code :: isdir :: size :: count :: eof :: data :: _ ->
        (match !q with
         | Some (proc, c) ->
           let obs = parse_p proc code isdir size count eof data in
           if !phase = 0 then (let (s', _) = sstep !cur_s c in cur_s := s')
           else (match !curh with Some (cl, i, r) -> hist := (cl, i, r, proc, c, obs) :: !hist | None -> ())
         | None -> ());
        q := None
      | "X" :: _ -> incr npanic
      | _ -> ()
    done with End_of_file -> ());
  let ops = Array.of_list (List.rev !hist) in
  let n = Array.length ops in
  let nodes = ref 0 and found = ref false and deepest = ref 0 and stuck = ref "" in
  let budget = 400000 in
  let dead = Hashtbl.create 4096 in
  let key_of s donev = (String.init n (fun i -> if donev.(i) then '1' else '0'), s) in
  let rec search s donev k =
    if !found || !nodes > budget || Hashtbl.mem dead (key_of s donev) then () else begin
      incr nodes;
      if k = n then found := true else begin
        let minret = ref max_int in
        Array.iteri (fun i (_, _, r, _, _, _) -> if not donev.(i) && r < !minret then minret := r) ops;
        Array.iteri (fun i (cl, inv, _, proc, c, obs) ->
            if not !found && not donev.(i) && inv < !minret then begin
              let (s', rs) = sstep s c in
              if rs = obs then (donev.(i) <- true; search s' donev (k + 1); donev.(i) <- false)
              else if k >= !deepest then (deepest := k; stuck := Printf.sprintf "client=%d:%s" cl proc)
            end) ops;
        if not !found && !nodes <= budget then Hashtbl.replace dead (key_of s donev) ()
      end
    end in
  if !npanic > 0 then Printf.printf "N crash BAD panics=%d\n" !npanic;
  search !cur_s (Array.make n false) 0;
  if !found then Printf.printf "N lin OK ops=%d nodes=%d\n" n !nodes
  else if !nodes > budget then Printf.printf "N lin UNKNOWN ops=%d nodes=%d\n" n !nodes
  else Printf.printf "N lin BAD no-sequential-order-explains-the-history ops=%d nodes=%d deepest=%d stuck-at=%s\n" n !nodes !deepest !stuck;
  Printf.printf "DONE ops=%d\n" n

(* ---------- XDR (C16): Go-encoded values and malformed byte strings against the extracted codec ---------- *)
let ascii_of_char c =
  let n = Char.code c in
  Ascii (n land 1 <> 0, n land 2 <> 0, n land 4 <> 0, n land 8 <> 0, n land 16 <> 0, n land 32 <> 0, n land 64 <> 0, n land 128 <> 0)
let chars_of_string (s : ostring) =
  let r = ref EmptyString in
  for i = Stdlib.String.length s - 1 downto 0 do r := String (ascii_of_char s.[i], !r) done; !r
let rec nat_of_int i = if i <= 0 then O else S (nat_of_int (i - 1))

let main_xdr file =
  let ic = open_in file in
  let nx = ref 0 and ny = ref 0 and bad = ref 0 and nacc = ref 0 and nrej = ref 0 in
  let fuel = nat_of_int 400 in
  let report kind ty what = incr bad; Printf.printf "%s %s BAD %s\n" kind ty what in
  (try while true do
      let line = input_line ic in
      match split_on ' ' line with
      | "X" :: ty :: b :: refb :: _ ->
        incr nx;
        let bs = bytes_of_hex b in
        if refb = "referr" then report "X" ty "independent-rfc1813-codec-rejects-the-encoding"
        else if refb <> b then report "X" ty "independent-rfc1813-codec-reencodes-differently";
        (* the generated descriptors of the repository's codec *)
        (match dec gen_env fuel (TRef (chars_of_string ty)) bs with
         | Some (v, []) ->
           (match enc gen_env fuel (TRef (chars_of_string ty)) v with
            | Some bs' -> if bs' <> bs then report "X" ty "model-reencodes-differently"
            | None -> report "X" ty "model-cannot-reencode")
         | Some (_, _ :: _) -> report "X" ty "model-leaves-trailing-bytes"
         | None -> report "X" ty "model-rejects-go-encoding");
        (* the RFC's descriptors *)
        (match lookup_ci rfc_env (chars_of_string ty) with
         | Some t ->
           (match dec rfc_env fuel t bs with
            | Some (v, []) -> (match enc rfc_env fuel t v with Some bs' when bs' = bs -> () | _ -> report "X" ty "rfc-descriptor-reencodes-differently")
            | _ -> report "X" ty "rfc-descriptor-rejects-go-encoding")
         | None -> report "X" ty "no-rfc-descriptor")
      | "XE" :: ty :: _ -> report "X" ty "go-encoder-failed"
      | "Y" :: ty :: b :: res :: re :: _ ->
        incr ny;
        let bs = bytes_of_hex b in
        (match dec gen_env fuel (TRef (chars_of_string ty)) bs, res with
         | Some (v, _), "ok" ->
           incr nacc;
           (match enc gen_env fuel (TRef (chars_of_string ty)) v with
            | Some bs' -> if re <> "encerr" && bs' <> bytes_of_hex re then report "Y" ty ("decoded-differently:" ^ b)
            | None -> report "Y" ty ("model-cannot-reencode:" ^ b))
         | None, "err" -> incr nrej
         | Some _, _ -> report "Y" ty ("go-rejects-model-accepts:" ^ b)
         | None, _ -> report "Y" ty ("go-accepts-model-rejects:" ^ b))
      | _ -> ()
    done with End_of_file -> ());
  Printf.printf "DONE values=%d malformed=%d accepted=%d rejected=%d bad=%d\n" !nx !ny !nacc !nrej !bad


(* ---------- concurrent histories (C03): linearizability search with the extracted reference ---------- *)
type hop = { hc : int; hinv : int; hret : int; hcall : call option; hname : ostring; hrep : oreply option; hbad : ostring }

let main_conc file =
  let ic = open_in file in
  let params = ref { p_name_max = N0; p_maxfilesize = N0; p_wtmax = N0; p_ninode = N0 } in
  let sz = ref N0 in
  let st = ref (init_afs true) in
  let disk = ref empty_disk in
  let call = ref None and oreply = ref None and cname = ref "" in
  let phase = ref 0 in               (* 0 set-up, 1 history, 2 final *)
  let hist = ref [] and cur = ref None in
  let txn_bad = ref [] and ntxn = ref 0 in
  let ended = ref "" in
  let flush_h () = match !cur with
    | Some (c, i, r) ->
      hist := { hc = c; hinv = i; hret = r; hcall = !call; hname = !cname; hrep = !oreply; hbad = "" } :: !hist; cur := None; call := None; oreply := None
    | None -> () in
  (try while true do
      let line = input_line ic in
      let toks = split_on ' ' line in
      match toks with
      | "I" :: s :: un :: nm :: mfs :: wt :: ni :: _ ->
        sz := n_of_string s;
        params := { p_name_max = n_of_string nm; p_maxfilesize = n_of_string mfs; p_wtmax = n_of_string wt; p_ninode = n_of_string ni };
        st := init_afs (un = "1")
      | "C" :: rest -> (match rest with _ :: nm :: _ -> cname := nm | _ -> ()); call := Some (parse_call rest)
      | "R" :: rest -> oreply := Some (fst (parse_reply rest)); if !phase = 1 then flush_h ()
      | "X" :: what :: _ ->
        if !phase = 1 then begin
          (match !cur with Some (c, i, r) -> hist := { hc = c; hinv = i; hret = r; hcall = !call; hname = !cname; hrep = None; hbad = what } :: !hist | None -> ());
          cur := None; call := None end
      | "D" :: a :: d :: _ ->
        let b = if d = "z" then zeros (n_of_int 4096) else bytes_of_hex d in
        disk := disk_set !disk (n_of_string a) b
      | "E" :: _ ->
        if !phase = 0 then begin
          (match !call, !oreply with
           | Some c, Some o -> let (s', _) = step !params !st c (hint_of c o) in st := s'
           | _ -> ());
          call := None; oreply := None end
      | "M" :: "conc-begin" :: _ -> phase := 1
      | "M" :: "conc-end" :: how :: _ -> phase := 2; ended := how
      | "H" :: c :: i :: r :: _ -> cur := Some (int_of_string c, int_of_string i, int_of_string r)
      | "LT" :: tproc :: rest ->
        incr ntxn;
        let evs = List.filter_map (fun tok ->
            if Stdlib.String.length tok < 2 then None else
            let k = tok.[0] in
            let body = Stdlib.String.sub tok 1 (Stdlib.String.length tok - 1) in
            let a = match split_on ':' body with [_; a] -> a | _ -> "0" in
            match k with
            | 'a' -> Some (TAcq (n_of_string a)) | 'r' -> Some (TRel (n_of_string a))
            | 'c' -> Some (TCommit (a = "1")) | 'd' -> Some (TCommitted (a = "1"))
            | 'x' -> Some TAbort | 'f' -> Some TFlush | 'g' -> Some (TFlushed (a = "1"))
            | 'n' -> Some (TFresh (n_of_string a)) | _ -> None) rest in
        let acqs = Stdlib.String.concat ">" (List.filter_map (function TAcq i -> Some (string_of_int (int_of_n i)) | _ -> None) evs) in
        if not (asc_f [] [] evs) then txn_bad := (tproc ^ " lock-order(" ^ acqs ^ ")") :: !txn_bad;
        if not (commit_phase_b N0 evs) then txn_bad := (tproc ^ " commit-phase(" ^ acqs ^ ")") :: !txn_bad;
        if not (balanced_b [] evs) then txn_bad := (tproc ^ " lock-leak(" ^ acqs ^ ")") :: !txn_bad
      | _ -> ()
    done with End_of_file -> ());
  let ops = Array.of_list (List.rev !hist) in
  let n = Array.length ops in
  let crashed = List.filter (fun o -> o.hbad <> "") (Array.to_list ops) in
  List.iter (fun o -> Printf.printf "N crash BAD client=%d %s %s\n" o.hc o.hname o.hbad) crashed;
  List.iter (fun b -> Printf.printf "N txn BAD %s\n" b) (List.sort_uniq compare !txn_bad);
  if !ended <> "ok" then Printf.printf "N end BAD %s\n" !ended;
  (* final state of the implementation *)
  let ar = abs_disk !params.p_name_max !params.p_maxfilesize !sz true !disk in
  if crashed = [] && !ended = "ok" then begin
    if ar.r_errs <> [] then Printf.printf "N final BAD wf=%s\n" (Stdlib.String.concat "," (List.map show_err (take 5 ar.r_errs)));
    let nodes = ref 0 and budget = 400000 in
    let deepest = ref 0 and deepest_stuck = ref "" in
    let found = ref false in
    let final_mismatch = ref "" in
    let path = Array.make (max n 1) 0 and witness = ref [] in
    let rec search (s : afs) (donev : bool array) (k : int) =
      if !found || !nodes > budget then () else begin
        incr nodes;
        if k = n then begin
          let mm = cmp_state s ar in
          if mm = [] then (found := true; witness := Array.to_list (Array.sub path 0 n))
          else if !final_mismatch = "" then final_mismatch := Stdlib.String.concat "," (List.map show_mm (take 4 mm))
        end else begin
          (* an operation may come next if no other pending operation had returned before it was invoked *)
          let minret = ref max_int in
          Array.iteri (fun i o -> if not donev.(i) && o.hret < !minret then minret := o.hret) ops;
          Array.iteri (fun i o ->
              if not !found && not donev.(i) && o.hinv < !minret then begin
                match o.hcall, o.hrep with
                | Some c, Some r ->
                  let (s', rr) = step !params s c (hint_of c r) in
                  if agree s' rr r then begin
                    path.(k) <- i;
                    donev.(i) <- true; search s' donev (k + 1); donev.(i) <- false
                  end else if k >= !deepest then begin
                    deepest := k;
                    deepest_stuck := Printf.sprintf "client=%d:%s:expected=%s:observed_code=%d" o.hc o.hname (show_reply rr) (int_of_n (code_of r))
                  end
                | _ -> ()
              end) ops
        end
      end in
    search !st (Array.make n false) 0;
    (* the order found is only believed if the extracted certificate checker accepts it (Proofs/LinProofs.v) *)
    let certified = !found && begin
        let rec nat_of_int k = if k = 0 then O else S (nat_of_int (k - 1)) in
        let hops = List.map (fun o -> match o.hcall, o.hrep with
            | Some c, Some r -> { h_inv = n_of_int o.hinv; h_ret = n_of_int o.hret; h_call = c; h_rep = r }
            | _ -> failwith "hop") (Array.to_list ops) in
        lin_check !params hops !st (fun s -> cmp_state s ar = []) (List.map nat_of_int !witness)
      end in
    if !found && not certified then Printf.printf "N lin BAD search-found-an-order-the-certificate-checker-rejects ops=%d\n" n
    else if !found then Printf.printf "N lin OK ops=%d nodes=%d txns=%d certified=1\n" n !nodes !ntxn
    else if !nodes > budget then Printf.printf "N lin UNKNOWN ops=%d nodes=%d (search budget exhausted)\n" n !nodes
    else begin
      (* diagnosis only (the verdict stays BAD): is the history explained once the per-entry attributes and handles
         of READDIRPLUS replies are left out, i.e. is the only thing wrong that one reply mixes the attributes of its
         entries from different moments (open finding F33)?  Same extracted `step` / `agree`, replies stripped. *)
      let strip (r : oreply) = match r with
        | ODir (c, ents, eof) -> ODir (c, List.map (fun e -> { e with de_plus = None }) ents, eof)
        | _ -> r in
      let found2 = ref false and nodes2 = ref 0 in
      let rec search2 (s : afs) (donev : bool array) (k : int) =
        if !found2 || !nodes2 > budget then () else begin
          incr nodes2;
          if k = n then (if cmp_state s ar = [] then found2 := true) else begin
            let minret = ref max_int in
            Array.iteri (fun i o -> if not donev.(i) && o.hret < !minret then minret := o.hret) ops;
            Array.iteri (fun i o ->
                if not !found2 && not donev.(i) && o.hinv < !minret then begin
                  match o.hcall, o.hrep with
                  | Some c, Some r ->
                    let (s', rr) = step !params s c (hint_of c r) in
                    if agree s' rr (strip r) then (donev.(i) <- true; search2 s' donev (k + 1); donev.(i) <- false)
                  | _ -> ()
                end) ops
          end
        end in
      search2 !st (Array.make n false) 0;
      Printf.printf "N lin BAD no-sequential-order-explains-the-history%s ops=%d nodes=%d deepest=%d stuck-at=%s final=%s\n"
        (if !found2 then " (explained-when-READDIRPLUS-entry-attributes-are-separate-reads)" else "") n !nodes !deepest !deepest_stuck !final_mismatch
    end
  end;
  Printf.printf "DONE ops=%d txns=%d\n" n !ntxn


(* dirmodel: dir.LookupName / AddName / RemName and the name cache, driven directly by the harness, against the
   extracted DM (Model/DirModel.v): result, slots, cache contents and Lastoff after every operation *)
let main_dirmodel file =
  let ic = open_in file in
  let rec nat_of_int k = if k <= 0 then O else S (nat_of_int (k - 1)) in
  let rec int_of_nat = function O -> 0 | S k -> 1 + int_of_nat k in
  let hex_of (l : byte0 list) = String.concat "" (List.map (fun b -> Printf.sprintf "%02x" (int_of_n (Extracted.to_N b))) l) in
  let parse_slots toks =
    List.map (fun t -> if t = "-" then None else
                 match split_on ':' t with
                 | [nm; i] -> Some (bytes_of_hex nm, n_of_string i)
                 | _ -> failwith ("slot " ^ t)) toks in
  let show_slots (l : (name * n) option list) =
    String.concat " " (List.map (function None -> "-" | Some (nm, i) -> hex_of nm ^ ":" ^ string_of_int (int_of_n i)) l) in
  let show_cache (st : dstate) =
    match dm_cache_list st with
    | None -> "nocache"
    | Some (last, l) ->
      let ents = List.map snd (List.sort compare (List.map (fun (nm, (i, k)) -> (hex_of nm, Printf.sprintf "%s:%d:%d" (hex_of nm) (int_of_n i) (128 * int_of_nat k))) l)) in
      Printf.sprintf "%d %d%s" (128 * int_of_nat last) (List.length ents) (String.concat "" (List.map (fun e -> " " ^ e) ents)) in
  let st = ref None and nops = ref 0 and nbad = ref 0 and cur = ref "" and expect_r = ref "" and started = ref false in
  let pend_slots = ref "" in
  let bad what = incr nbad; if !nbad <= 10 then Printf.printf "D %d BAD %s op=%s\n" !nops what (String.sub !cur 0 (min 60 (String.length !cur))) in
  (try while true do
      let line = input_line ic in
      match split_on ' ' line with
      | "DI" :: _ -> ()
      | "DX" :: r -> bad ("harness:" ^ String.concat " " r)
      | "DO" :: rest ->
        incr nops; cur := String.concat " " rest;
        (match !st, rest with
         | None, _ -> expect_r := "?"
         | Some s, ["lookup"; nm] ->
           let (s', r) = dm_lookup s (bytes_of_hex nm) in
           st := Some s';
           expect_r := (match r with None -> "0 0" | Some (i, k) -> Printf.sprintf "%d %d" (int_of_n i) (128 * int_of_nat k))
         | Some s, ["addx"; nm; i] ->
           let (s', r) = dm_addx s (n_of_string i) (bytes_of_hex nm) true in
           st := Some s';
           expect_r := (match r with None -> "exist" | Some true -> "true" | Some false -> "false")
         | Some s, ["rem"; nm] ->
           let (s', r) = rem_name s (bytes_of_hex nm) in
           st := Some s'; expect_r := if r then "true" else "false"
         | Some s, ["drop"] -> expect_r := "-"       (* the dump that follows is taken before the abort *)
         | Some s, ["nop"] -> st := Some (drop_cache s); expect_r := "-"
         | Some _, _ -> bad "unknown-op")
      | "DR" :: r ->
        let got = String.concat " " r in
        if !started && !expect_r <> "?" && got <> !expect_r then bad (Printf.sprintf "result:model=%s impl=%s" !expect_r got)
      | "DS" :: _ :: toks -> pend_slots := String.concat " " toks
      | "DC" :: toks ->
        let impl_cache = String.concat " " toks in
        (match !st with
         | None ->
           (* the first dump is the initial state *)
           let slots = parse_slots (List.filter (fun x -> x <> "") (split_on ' ' !pend_slots)) in
           let cache = match toks with
             | ["nocache"] -> None
             | last :: _ :: ents ->
               Some (nat_of_int (int_of_string last / 128),
                     List.map (fun e -> match split_on ':' e with
                         | [nm; i; off] -> (bytes_of_hex nm, (n_of_string i, nat_of_int (int_of_string off / 128)))
                         | _ -> failwith ("cache " ^ e)) ents)
             | _ -> None in
           st := Some (dm_make slots cache); started := true
         | Some s ->
           let ms = show_slots s.d_slots in
           if ms <> !pend_slots then bad (Printf.sprintf "slots:model=[%s] impl=[%s]" ms !pend_slots);
           let mc = show_cache s in
           if mc <> impl_cache then bad (Printf.sprintf "cache:model=[%s] impl=[%s]" mc impl_cache))
      | _ -> ()
    done with End_of_file -> ());
  Printf.printf "DONE ops=%d bad=%d\n" !nops !nbad


(* atmodel: alloctxn over the real allocator and bitmap, against the extracted AT (Model/AllocModel.v) *)
let main_atmodel file =
  let ic = open_in file in
  let rec nat_of_int k = if k <= 0 then O else S (nat_of_int (k - 1)) in
  let rec int_of_nat = function O -> 0 | S k -> 1 + int_of_nat k in
  let st = ref None and nops = ref 0 and nbad = ref 0 and cur = ref "" in
  let bad what = incr nbad; if !nbad <= 10 then Printf.printf "A %d BAD %s op=%s\n" !nops what !cur in
  (try while true do
      let line = input_line ic in
      match split_on ' ' line with
      | "AX" :: r -> bad ("harness:" ^ String.concat " " r)
      | "AO" :: rest ->
        incr nops; cur := String.concat " " rest;
        (match !st with
         | None -> ()
         | Some s ->
           let o = match rest with
             | ["begin"; t] -> Some (ABegin (nat_of_int (int_of_string t)))
             | ["alloc"; t; n] -> if n = "0" then None else Some (AAlloc (nat_of_int (int_of_string t), n_of_string n))
             | ["free"; t; n] -> Some (AFree (nat_of_int (int_of_string t), n_of_string n))
             | ["commit"; t] -> Some (ACommit (nat_of_int (int_of_string t)))
             | ["abort"; t] -> Some (AAbort (nat_of_int (int_of_string t)))
             | _ -> None in
           (match o with
            | None -> ()
            | Some o ->
              (match astep s o with
               | Some s' -> st := Some s'
               | None -> bad "guard:the model does not allow this step (e.g. the number handed out is marked in the model's allocator)")))
      | "AS" :: mem :: _ :: nums ->
        let nums = List.filter (fun x -> x <> "") nums in
        (match !st with
         | None -> st := Some (a_init_list (List.map n_of_string nums))
         | Some s ->
           let md = List.sort compare (List.map int_of_n (a_disk_list s)) in
           let id = List.map int_of_string nums in
           if md <> id then begin
             let diff a b = List.filter (fun x -> not (List.mem x b)) a in
             bad (Printf.sprintf "disk:only-in-model=[%s] only-on-disk=[%s]"
                    (String.concat "," (List.map string_of_int (take 6 (diff md id)))) (String.concat "," (List.map string_of_int (take 6 (diff id md)))))
           end;
           let mm = int_of_nat (a_mem_size s) in
           if mm <> int_of_string mem then bad (Printf.sprintf "mem:model-marks=%d allocator-marks=%s" mm mem))
      | _ -> ()
    done with End_of_file -> ());
  Printf.printf "DONE ops=%d bad=%d\n" !nops !nbad


(* icmodel: the inode cache under interleaved transactions, against the extracted IC (Model/IcacheModel.v);
   values are whole encoded inodes (hex strings) *)
let main_icmodel file =
  let ic = open_in file in
  let rec nat_of_int k = if k <= 0 then O else S (nat_of_int (k - 1)) in
  let eqdec (a : ostring) (b : ostring) = a = b in
  let st : ostring icstate option ref = ref None in
  let nops = ref 0 and nbad = ref 0 and cur = ref "" in
  let bad what = incr nbad; if !nbad <= 10 then Printf.printf "I %d BAD %s op=%s\n" !nops what (String.sub !cur 0 (min 40 (String.length !cur))) in
  (try while true do
      let line = input_line ic in
      match split_on ' ' line with
      | "IX" :: r -> bad ("harness:" ^ String.concat " " r)
      | "IO" :: rest ->
        incr nops; cur := String.concat " " rest;
        (match !st with
         | None -> ()
         | Some s ->
           let o = match rest with
             | ["lock"; t; i] -> Some (ILock (nat_of_int (int_of_string t), n_of_string i))
             | ["mod"; t; i; v] -> Some (IMod (nat_of_int (int_of_string t), n_of_string i, v))
             | ["write"; t; i] -> Some (IWrite (nat_of_int (int_of_string t), n_of_string i))
             | ["commit"; t] -> Some (ICommit (nat_of_int (int_of_string t)))
             | ["abort"; t] -> Some (IAbort (nat_of_int (int_of_string t)))
             | _ -> None in
           (match o with
            | None -> ()
            | Some o ->
              (match icstep eqdec "" s o with
               | Some s' -> st := Some s'
               | None -> bad "guard:the model does not allow this step")))
      | "IS" :: toks ->
        let rec triples l acc = match l with
          | i :: dv :: cv :: r -> triples r ((n_of_string i, dv, cv) :: acc)
          | _ -> List.rev acc in
        let tr = triples (List.filter (fun x -> x <> "") toks) [] in
        (match !st with
         | None -> st := Some (ic_make (List.map (fun (i, dv, _) -> (i, dv)) tr))
         | Some s ->
           List.iter (fun (i, dv, cv) ->
               (match ic_disk_at s i with
                | Some v when v = dv -> ()
                | _ -> bad (Printf.sprintf "disk:inode %d committed contents differ from the model" (int_of_n i)));
               (match ic_cache_at s i, cv with
                | None, "-" -> ()
                | Some v, c when v = c -> ()
                | None, _ -> bad (Printf.sprintf "cache:inode %d cached by the server, not in the model" (int_of_n i))
                | Some _, "-" -> bad (Printf.sprintf "cache:inode %d cached in the model, not by the server" (int_of_n i))
                | Some _, _ -> bad (Printf.sprintf "cache:inode %d cached copy differs from the model" (int_of_n i)))) tr)
      | _ -> ()
    done with End_of_file -> ());
  Printf.printf "DONE ops=%d bad=%d\n" !nops !nbad

let () =
  match Array.to_list Sys.argv with
  | _ :: "icmodel" :: file :: _ -> main_icmodel file
  | _ :: "atmodel" :: file :: _ -> main_atmodel file
  | _ :: "dirmodel" :: file :: _ -> main_dirmodel file
  | _ :: "c15" :: file :: rest -> main_c15 file (rest = ["full"])
  | _ :: "crash" :: file :: _ -> main_crash file
  | _ :: "conc" :: file :: _ -> main_conc file
  | _ :: "xdr" :: file :: _ -> main_xdr file
  | _ :: "simple" :: file :: _ -> main_simple file
  | _ :: "simpleconc" :: file :: _ -> main_simpleconc file
  | _ :: "kvsconc" :: file :: _ -> main_kvsconc file
  | _ :: "kvs" :: file :: _ -> main_kvs file
  | _ :: "seq" :: file :: rest -> main_seq file (rest <> ["noabs"])
  | _ :: file :: rest -> main_seq file (rest <> ["noabs"])
  | _ -> prerr_endline "usage: drv <mode> <file>"; exit 2
