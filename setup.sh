#!/bin/bash
# Build the whole framework from files on disk (offline).
set -e
export GOFLAGS=-mod=mod GOPROXY=off GOSUMDB=off GOTOOLCHAIN=local
cd "$(dirname "$0")"
V=$(pwd)
R=${VERIF_REPO:-/repo}
mkdir -p .work/bin .work/ocaml evidence replays
(cd translator && cp $R/go.sum . && go build -o $V/.work/bin/translator .)
rm -rf .work/gen && mkdir -p .work/gen && .work/bin/translator $R .work/gen
python3 scripts/xparse.py $(cd $R && go list -m -f '{{.Dir}}' github.com/zeldovich/go-rpcgen)/rfc1813/prot.x .work/gen/GenRfc.v
for f in .work/gen/*.v; do cmp -s $f coq/Gen/$(basename $f) || cp $f coq/Gen/; done
scripts/build.sh all
echo SETUP-OK
