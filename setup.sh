#!/bin/bash
# Build the whole framework from files on disk (offline).
set -e
export GOFLAGS=-mod=mod GOPROXY=off GOSUMDB=off GOTOOLCHAIN=local
cd /verif
mkdir -p .work/bin .work/ocaml evidence replays
(cd translator && cp /repo/go.sum . && go build -o /verif/.work/bin/translator .)
rm -rf .work/gen && mkdir -p .work/gen && .work/bin/translator /repo .work/gen
for f in .work/gen/*.v; do cmp -s $f coq/Gen/$(basename $f) || cp $f coq/Gen/; done
scripts/build.sh all
echo SETUP-OK
