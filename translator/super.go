// Prototype translator: pure uint64 functions of package super -> Gallina over N with explicit wrap.
package main

import (
	"fmt"
	"go/ast"
	"go/constant"
	"go/token"
	"go/types"
	"sort"
	"strings"

	"golang.org/x/tools/go/packages"
)

var info *types.Info
var recv string // receiver name of the method being translated

type unsupported struct{ msg string }

func fail(n ast.Node, fset *token.FileSet, msg string) {
	panic(unsupported{fmt.Sprintf("%s: %s", fset.Position(n.Pos()), msg)})
}

var fset *token.FileSet

// expression -> Gallina term of type N
func expr(e ast.Expr) string {
	// constants are folded by the Go type checker
	if tv, ok := info.Types[e]; ok && tv.Value != nil && tv.Value.Kind() == constant.Int {
		return tv.Value.ExactString()
	}
	switch x := e.(type) {
	case *ast.ParenExpr:
		return expr(x.X)
	case *ast.Ident:
		return x.Name
	case *ast.SelectorExpr:
		if id, ok := x.X.(*ast.Ident); ok && id.Name == recv {
			return "(" + x.Sel.Name + " " + recv + ")"
		}
		fail(e, fset, "selector")
	case *ast.CallExpr:
		// conversions uint64(x), common.Bnum(x), common.Inum(x)
		if tv, ok := info.Types[x.Fun]; ok && tv.IsType() {
			return expr(x.Args[0])
		}
		// method call on the receiver: fs.Foo()
		if sel, ok := x.Fun.(*ast.SelectorExpr); ok {
			if id, ok := sel.X.(*ast.Ident); ok && id.Name == recv && len(x.Args) == 0 {
				return "(" + sel.Sel.Name + " " + recv + ")"
			}
			if id, ok := sel.X.(*ast.Ident); ok && id.Name == "addr" && sel.Sel.Name == "MkAddr" {
				return "(" + expr(x.Args[0]) + ", " + expr(x.Args[1]) + ")"
			}
			if id, ok := sel.X.(*ast.Ident); ok && id.Name == "d" && sel.Sel.Name == "Size" {
				return "sz"
			}
		}
		fail(e, fset, "call")
	case *ast.BinaryExpr:
		a, b := expr(x.X), expr(x.Y)
		switch x.Op {
		case token.ADD:
			return "w64 (" + a + " + " + b + ")"
		case token.MUL:
			return "w64 (" + a + " * " + b + ")"
		case token.SUB:
			return "w64 (" + a + " + W - " + b + ")"
		case token.QUO:
			return "(" + a + " / " + b + ")"
		case token.REM:
			return "(" + a + " mod " + b + ")"
		}
		fail(e, fset, "binop "+x.Op.String())
	}
	fail(e, fset, fmt.Sprintf("expr %T", e))
	return ""
}

// genSuper translates package super (pure uint64 arithmetic) to Gallina.
func genSuper(p *packages.Package) string {
	info = p.TypesInfo
	fset = p.Fset
	var out strings.Builder
	out.WriteString("(* GENERATED from super/super.go — do not edit *)\nFrom Coq Require Import NArith.\nOpen Scope N_scope.\n")
	out.WriteString("Definition W := 18446744073709551616.\nDefinition w64 (x:N) := x mod W.\n")
	// the struct
	for _, f := range p.Syntax {
		for _, d := range f.Decls {
			gd, ok := d.(*ast.GenDecl)
			if !ok || gd.Tok != token.TYPE {
				continue
			}
			ts := gd.Specs[0].(*ast.TypeSpec)
			st := ts.Type.(*ast.StructType)
			var fields []string
			for _, fl := range st.Fields.List {
				if t, ok := info.TypeOf(fl.Type).Underlying().(*types.Basic); ok && t.Kind() == types.Uint64 {
					for _, n := range fl.Names {
						fields = append(fields, n.Name+" : N")
					}
				}
			}
			fmt.Fprintf(&out, "Record %s := { %s }.\n", ts.Name.Name, strings.Join(fields, "; "))
		}
	}
	// functions in source order
	var fds []*ast.FuncDecl
	for _, f := range p.Syntax {
		for _, d := range f.Decls {
			if fd, ok := d.(*ast.FuncDecl); ok {
				fds = append(fds, fd)
			}
		}
	}
	sort.Slice(fds, func(i, j int) bool { return fds[i].Pos() < fds[j].Pos() })
	for _, fd := range fds {
		if fd.Recv == nil {
			// constructor: MkFsSuper(d disk.Disk)
			recv = ""
			var lets []string
			var ret string
			for _, s := range fd.Body.List {
				switch st := s.(type) {
				case *ast.AssignStmt:
					lets = append(lets, fmt.Sprintf("let %s := %s in", st.Lhs[0].(*ast.Ident).Name, expr(st.Rhs[0])))
				case *ast.ReturnStmt:
					cl := st.Results[0].(*ast.UnaryExpr).X.(*ast.CompositeLit)
					var fs []string
					for _, el := range cl.Elts {
						kv := el.(*ast.KeyValueExpr)
						k := kv.Key.(*ast.Ident).Name
						if k == "Disk" {
							continue
						}
						fs = append(fs, k+" := "+expr(kv.Value))
					}
					ret = "{| " + strings.Join(fs, "; ") + " |}"
				default:
					fail(s, fset, "stmt")
				}
			}
			fmt.Fprintf(&out, "Definition %s (sz:N) : FsSuper :=\n  %s\n  %s.\n", fd.Name.Name, strings.Join(lets, "\n  "), ret)
			continue
		}
		recv = fd.Recv.List[0].Names[0].Name
		var params []string
		for _, pl := range fd.Type.Params.List {
			for _, n := range pl.Names {
				params = append(params, "("+n.Name+":N)")
			}
		}
		if len(fd.Body.List) != 1 {
			fail(fd, fset, "body")
		}
		r := fd.Body.List[0].(*ast.ReturnStmt)
		fmt.Fprintf(&out, "Definition %s (%s:FsSuper) %s := %s.\n", fd.Name.Name, recv, strings.Join(params, " "), expr(r.Results[0]))
	}
	return out.String()
}
