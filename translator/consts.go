// Constants translator: the integer constants of go-nfsd and of the go-journal / goose packages it is built
// on, as the Go type checker evaluates them, become Gen/GenConsts.v.  Proofs/ConstsConform.v states, by
// reflexivity, that the hand-written models use the same numbers.
package main

import (
	"fmt"
	"go/constant"
	"go/types"
	"sort"
	"strings"

	"golang.org/x/tools/go/packages"
)

func init() {
	generators = append(generators, generator{"consts", "GenConsts.v", genConsts})
}

var constWanted = map[string][]string{
	"github.com/mit-pdos/go-nfsd/inode":       {"NBLKINO", "NDIRECT", "INDIRECT", "DINDIRECT", "NBLKBLK", "NINDLEVEL", "NF3FREE"},
	"github.com/mit-pdos/go-nfsd/dir":         {"DIRENTSZ", "MAXNAMELEN", "fattr3XDRsize", "entryplus3Baggage"},
	"github.com/mit-pdos/go-nfsd/fstxn":       {"ICACHESZ"},
	"github.com/mit-pdos/go-journal/common":   {"INODESZ", "NBITBLOCK", "INODEBLK", "LOGSIZE", "NINODEBITMAP", "ROOTINUM", "NULLINUM", "NULLBNUM"},
	"github.com/mit-pdos/go-journal/jrnl":     {"LogBlocks"},
	"github.com/mit-pdos/go-journal/wal":      {"LOGSZ", "LOGDISKBLOCKS", "HDRADDRS", "LOGHDR", "LOGHDR2", "LOGSTART"},
	"github.com/goose-lang/primitive/disk":    {"BlockSize"},
	"github.com/mit-pdos/go-nfsd/nfstypes": {"NF3REG", "NF3DIR", "NF3LNK", "NFS3_OK", "NFS3ERR_NOSPC", "NFS3ERR_DQUOT", "NFS3ERR_STALE", "NFS3ERR_NOTSUPP",
		"NFS3ERR_SERVERFAULT", "NFS3ERR_NOENT", "NFS3ERR_EXIST", "NFS3ERR_NOTDIR", "NFS3ERR_ISDIR", "NFS3ERR_INVAL", "NFS3ERR_NAMETOOLONG",
		"NFS3ERR_NOTEMPTY", "NFS3ERR_BADHANDLE", "NFS3ERR_FBIG", "UNSTABLE", "DATA_SYNC", "FILE_SYNC"},
}

func allPackages() map[string]*packages.Package {
	seen := map[string]*packages.Package{}
	var walk func(p *packages.Package)
	walk = func(p *packages.Package) {
		if _, ok := seen[p.PkgPath]; ok {
			return
		}
		seen[p.PkgPath] = p
		for _, q := range p.Imports {
			walk(q)
		}
	}
	for _, p := range pkgs {
		walk(p)
	}
	return seen
}

func genConsts() string {
	all := allPackages()
	var b strings.Builder
	b.WriteString("(* GENERATED from the constants of /repo and its go-journal / goose dependencies — do not edit *)\n")
	b.WriteString("From Coq Require Import NArith.\nOpen Scope N_scope.\n\n")
	paths := make([]string, 0, len(constWanted))
	for p := range constWanted {
		paths = append(paths, p)
	}
	sort.Strings(paths)
	for _, path := range paths {
		p, ok := all[path]
		if !ok || p.Types == nil {
			panic(unsupported{"package not loaded: " + path})
		}
		base := path[strings.LastIndex(path, "/")+1:]
		for _, name := range constWanted[path] {
			obj := p.Types.Scope().Lookup(name)
			c, ok := obj.(*types.Const)
			if !ok {
				panic(unsupported{fmt.Sprintf("%s.%s is not a constant any more", path, name)})
			}
			if c.Val().Kind() != constant.Int {
				panic(unsupported{fmt.Sprintf("%s.%s is not an integer constant", path, name)})
			}
			fmt.Fprintf(&b, "Definition go_%s_%s : N := %s.\n", base, name, c.Val().ExactString())
		}
	}
	return b.String()
}
