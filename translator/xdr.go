package main

import (
	"fmt"
	"go/ast"
	"go/constant"
	"go/printer"
	"go/token"
	"go/types"
	"sort"
	"strings"

	"golang.org/x/tools/go/packages"
)

// Translation of the rpcgen codec (nfstypes/nfs_xdr.go) into descriptor terms of Model/Xdr.v.
// Every `func (v *T) Xdr(xs)` body is a sequence of the statement shapes listed in DESIGN 2.2(a);
// anything else makes the item fail.

type xtr struct {
	p    *packages.Package
	fset *token.FileSet
}

func (x *xtr) bad(n ast.Node, msg string) {
	panic(unsupported{fmt.Sprintf("%s: %s", x.fset.Position(n.Pos()), msg)})
}

func unparen(e ast.Expr) ast.Expr {
	for {
		p, ok := e.(*ast.ParenExpr)
		if !ok {
			return e
		}
		e = p.X
	}
}

// target of an expression that denotes `v` or a field of v: returns ("", true) for v itself,
// (field, true) for (v).F / &((v).F) / *(&((v).F)) forms.
func (x *xtr) target(e ast.Expr) (string, bool) {
	e = unparen(e)
	switch t := e.(type) {
	case *ast.Ident:
		if t.Name == "v" {
			return "", true
		}
	case *ast.UnaryExpr:
		if t.Op == token.AND {
			return x.target(t.X)
		}
	case *ast.StarExpr:
		return x.target(t.X)
	case *ast.SelectorExpr:
		if f, ok := x.target(t.X); ok && f == "" {
			return t.Sel.Name, true
		}
	}
	return "", false
}

func (x *xtr) constN(e ast.Expr) (int64, bool) {
	tv, ok := x.p.TypesInfo.Types[e]
	if !ok || tv.Value == nil {
		return 0, false
	}
	switch tv.Value.Kind() {
	case constant.Int:
		v, ok := constant.Int64Val(tv.Value)
		return v, ok
	case constant.Bool:
		if constant.BoolVal(tv.Value) {
			return 1, true
		}
		return 0, true
	}
	return 0, false
}

type xitem struct {
	field string // "" for whole value
	ty    string // Gallina ty term
	sw    string // ISwitch term if not empty
}

// one call statement: returns the field it touches and the descriptor
func (x *xtr) callStmt(call *ast.CallExpr) (string, string) {
	sel, ok := call.Fun.(*ast.SelectorExpr)
	if !ok {
		x.bad(call, "call shape")
	}
	// (*U)(target).Xdr(xs)
	if sel.Sel.Name == "Xdr" {
		conv, ok := unparen(sel.X).(*ast.CallExpr)
		if !ok || len(conv.Args) != 1 {
			x.bad(call, "method receiver shape")
		}
		st, ok := unparen(conv.Fun).(*ast.StarExpr)
		if !ok {
			x.bad(call, "receiver conversion")
		}
		id, ok := st.X.(*ast.Ident)
		if !ok {
			x.bad(call, "receiver type")
		}
		f, ok := x.target(conv.Args[0])
		if !ok {
			x.bad(call, "receiver target")
		}
		return f, fmt.Sprintf("(TRef %q)", id.Name)
	}
	pk, ok := sel.X.(*ast.Ident)
	if !ok || pk.Name != "xdr" {
		x.bad(call, "unknown call")
	}
	last := call.Args[len(call.Args)-1]
	// strip conversion (*T)(target)
	arg := unparen(last)
	if c, ok := arg.(*ast.CallExpr); ok && len(c.Args) == 1 {
		arg = c.Args[0]
	}
	if s, ok := unparen(arg).(*ast.SliceExpr); ok { // (*v)[:] / ((v).F)[:]
		arg = s.X
	}
	f, ok := x.target(arg)
	if !ok {
		x.bad(call, "primitive target")
	}
	switch sel.Sel.Name {
	case "XdrU32", "XdrS32":
		return f, "TU32"
	case "XdrU64", "XdrS64":
		return f, "TU64"
	case "XdrBool":
		return f, "TBool"
	case "XdrString", "XdrVarArray":
		m, ok := x.constN(call.Args[1])
		if !ok {
			x.bad(call, "max length not constant")
		}
		if m < 0 {
			return f, "(TVar None)"
		}
		return f, fmt.Sprintf("(TVar (Some %d))", m)
	case "XdrArray":
		// length of the array type
		t := x.p.TypesInfo.TypeOf(unparen(arg))
		if pt, ok := t.(*types.Pointer); ok {
			t = pt.Elem()
		}
		at, ok := t.Underlying().(*types.Array)
		if !ok {
			x.bad(call, "XdrArray on non-array")
		}
		return f, fmt.Sprintf("(TFixed %d)", at.Len())
	}
	x.bad(call, "unknown xdr primitive "+sel.Sel.Name)
	return "", ""
}

func (x *xtr) items(stmts []ast.Stmt) []string {
	var out []string
	for i := 0; i < len(stmts); i++ {
		switch s := stmts[i].(type) {
		case *ast.ExprStmt:
			call, ok := s.X.(*ast.CallExpr)
			if !ok {
				x.bad(s, "expression statement")
			}
			f, t := x.callStmt(call)
			if f == "" {
				x.bad(s, "whole-value call inside a struct body")
			}
			out = append(out, fmt.Sprintf("IField %q %s", f, t))
		case *ast.SwitchStmt:
			on, ok := x.target(s.Tag)
			if !ok || on == "" {
				x.bad(s, "switch tag")
			}
			var arms []string
			dflt := "None"
			var pending []int64
			for _, c := range s.Body.List {
				cc := c.(*ast.CaseClause)
				var vals []int64
				for _, e := range cc.List {
					v, ok := x.constN(e)
					if !ok {
						x.bad(e, "case value not constant")
					}
					vals = append(vals, v)
				}
				body := cc.Body
				if len(body) == 1 {
					if b, ok := body[0].(*ast.BranchStmt); ok && b.Tok == token.FALLTHROUGH {
						pending = append(pending, vals...)
						continue
					}
				}
				its := "[" + strings.Join(x.items(body), "; ") + "]"
				if cc.List == nil {
					dflt = "(Some " + its + ")"
					if len(pending) > 0 {
						x.bad(cc, "fallthrough into default")
					}
					continue
				}
				for _, v := range append(pending, vals...) {
					arms = append(arms, fmt.Sprintf("(%d, %s)", v, its))
				}
				pending = nil
			}
			out = append(out, fmt.Sprintf("ISwitch %q [%s] %s", on, strings.Join(arms, "; "), dflt))
		case *ast.IfStmt:
			// if xs.Encoding() { opted := *(&((v).F)) != nil; XdrBool; if opted { (*U)(*(&((v).F))).Xdr(xs) } }
			cond, ok := s.Cond.(*ast.CallExpr)
			if !ok {
				x.bad(s, "if condition")
			}
			cs, ok := cond.Fun.(*ast.SelectorExpr)
			if !ok {
				x.bad(s, "if condition")
			}
			if cs.Sel.Name == "Decoding" {
				continue // the decoding twin of the optional just translated
			}
			if cs.Sel.Name != "Encoding" || len(s.Body.List) != 3 {
				x.bad(s, "optional shape")
			}
			inner, ok := s.Body.List[2].(*ast.IfStmt)
			if !ok || len(inner.Body.List) != 1 {
				x.bad(s, "optional inner shape")
			}
			es, ok := inner.Body.List[0].(*ast.ExprStmt)
			if !ok {
				x.bad(s, "optional inner call")
			}
			f, t := x.callStmt(es.X.(*ast.CallExpr))
			if f == "" {
				x.bad(s, "optional on whole value")
			}
			// the decoding twin must follow and mention the same field and type
			if i+1 >= len(stmts) {
				x.bad(s, "optional without decoding twin")
			}
			tw, ok := stmts[i+1].(*ast.IfStmt)
			if !ok {
				x.bad(s, "optional without decoding twin")
			}
			twin := x.decTwin(tw)
			if twin != f+"|"+t {
				x.bad(tw, "decoding twin differs from the encoding half: "+twin+" vs "+f+"|"+t)
			}
			out = append(out, fmt.Sprintf("IField %q (TOpt %s)", f, t))
		case *ast.BlockStmt:
			// counted array of uint32
			f := x.countedArray(s)
			out = append(out, fmt.Sprintf("IField %q TArr32", f))
		default:
			x.bad(s, fmt.Sprintf("statement %T", s))
		}
	}
	return out
}

func (x *xtr) decTwin(s *ast.IfStmt) string {
	cond, ok := s.Cond.(*ast.CallExpr)
	if !ok {
		x.bad(s, "twin condition")
	}
	cs, ok := cond.Fun.(*ast.SelectorExpr)
	if !ok || cs.Sel.Name != "Decoding" || len(s.Body.List) != 3 {
		x.bad(s, "twin shape")
	}
	inner, ok := s.Body.List[2].(*ast.IfStmt)
	if !ok || len(inner.Body.List) != 2 {
		x.bad(s, "twin inner shape")
	}
	es, ok := inner.Body.List[1].(*ast.ExprStmt)
	if !ok {
		x.bad(s, "twin inner call")
	}
	f, t := x.callStmt(es.X.(*ast.CallExpr))
	return f + "|" + t
}

func (x *xtr) countedArray(b *ast.BlockStmt) string {
	if len(b.List) != 5 {
		x.bad(b, "counted array shape")
	}
	fs, ok := b.List[4].(*ast.ForStmt)
	if !ok || len(fs.Body.List) != 1 {
		x.bad(b, "counted array loop")
	}
	es, ok := fs.Body.List[0].(*ast.ExprStmt)
	if !ok {
		x.bad(b, "counted array element")
	}
	call := es.X.(*ast.CallExpr)
	sel := call.Fun.(*ast.SelectorExpr)
	if sel.Sel.Name != "XdrU32" {
		x.bad(b, "counted array of something else than uint32")
	}
	// element target: (*(&((v).F)))[i]
	arg := unparen(call.Args[1])
	if c, ok := arg.(*ast.CallExpr); ok && len(c.Args) == 1 {
		arg = c.Args[0]
	}
	arg = unparen(arg)
	if u, ok := arg.(*ast.UnaryExpr); ok {
		arg = unparen(u.X)
	}
	ix, ok := arg.(*ast.IndexExpr)
	if !ok {
		x.bad(b, "counted array index")
	}
	f, ok := x.target(ix.X)
	if !ok || f == "" {
		x.bad(b, "counted array field")
	}
	return f
}

func genXdr() string {
	p := pkgs["nfstypes"]
	x := &xtr{p: p, fset: p.Fset}
	type ent struct{ name, term string }
	var ents []ent
	var procs []string
	for _, f := range p.Syntax {
		for _, d := range f.Decls {
			fd, ok := d.(*ast.FuncDecl)
			if !ok {
				continue
			}
			if fd.Recv != nil && fd.Name.Name == "Xdr" {
				st := fd.Recv.List[0].Type.(*ast.StarExpr)
				tn := st.X.(*ast.Ident).Name
				body := fd.Body.List
				// alias / primitive: a single whole-value call
				if len(body) == 1 {
					if es, ok := body[0].(*ast.ExprStmt); ok {
						if call, ok := es.X.(*ast.CallExpr); ok {
							func() {
								defer func() {
									if r := recover(); r != nil {
										if _, isU := r.(unsupported); !isU {
											panic(r)
										}
										panic(r)
									}
								}()
								f, t := x.callStmt(call)
								if f == "" {
									ents = append(ents, ent{tn, t})
									body = nil
								}
							}()
						}
					}
				}
				if body != nil {
					ents = append(ents, ent{tn, "(TSeq [" + strings.Join(x.items(body), "; ") + "])"})
				}
			}
		}
	}
	// the primitive wrapper types of the xdr runtime
	ents = append(ents, ent{"Uint32", "TU32"}, ent{"Uint64", "TU64"}, ent{"Int32", "TU32"}, ent{"Int64", "TU64"}, ent{"Bool", "TBool"})
	seen := map[string]bool{}
	var uniq []ent
	for _, e := range ents {
		if !seen[e.name] {
			seen[e.name] = true
			uniq = append(uniq, e)
		}
	}
	sort.Slice(uniq, func(i, j int) bool { return uniq[i].name < uniq[j].name })
	// registration tables and wrappers
	wrappers := map[string][3]string{} // wrapper method -> (argtype, handler, restype)
	for _, f := range p.Syntax {
		for _, d := range f.Decls {
			fd, ok := d.(*ast.FuncDecl)
			if !ok || fd.Recv == nil || fd.Name.Name == "Xdr" {
				continue
			}
			rt, ok := fd.Recv.List[0].Type.(*ast.StarExpr)
			if !ok {
				continue
			}
			rn := rt.X.(*ast.Ident).Name
			if !strings.HasSuffix(rn, "_handler_wrapper") {
				continue
			}
			in, out, h := "void", "void", ""
			ast.Inspect(fd.Body, func(n ast.Node) bool {
				switch s := n.(type) {
				case *ast.GenDecl:
					vs := s.Specs[0].(*ast.ValueSpec)
					tn := types.ExprString(vs.Type)
					switch vs.Names[0].Name {
					case "in":
						in = tn
					case "out":
						if tn != "xdr.Void" {
							out = tn
						}
					}
				case *ast.CallExpr:
					if se, ok := s.Fun.(*ast.SelectorExpr); ok {
						if inner, ok := se.X.(*ast.SelectorExpr); ok && inner.Sel.Name == "h" {
							h = se.Sel.Name
						}
					}
				}
				return true
			})
			// the wrapper must be the canonical sequence: decode the arguments, give up on a decode error, call the
			// procedure, return its result; anything else (order, a missing error check, extra statements) is recorded
			// as an argument type no RFC procedure has, which breaks the dispatch obligation of C16
			var got []string
			for _, st := range fd.Body.List {
				var sb strings.Builder
				printer.Fprint(&sb, x.fset, st)
				got = append(got, strings.Join(strings.Fields(sb.String()), " "))
			}
			var want []string
			callArgs := ""
			if in != "void" {
				want = append(want, "var in "+in, "in.Xdr(args)", "err = args.Error()", "if err != nil { return }")
				callArgs = "in"
			}
			call := "w.h." + h + "(" + callArgs + ")"
			if out != "void" {
				want = append(want, "var out "+out, "out = "+call)
			} else {
				want = append(want, "var out xdr.Void", call)
			}
			want = append(want, "return &out, nil")
			if strings.Join(got, " ; ") != strings.Join(want, " ; ") {
				in = "noncanonical-wrapper"
			}
			wrappers[rn+"."+fd.Name.Name] = [3]string{in, h, out}
		}
	}
	for _, f := range p.Syntax {
		for _, d := range f.Decls {
			fd, ok := d.(*ast.FuncDecl)
			if !ok || fd.Recv != nil || !strings.HasSuffix(fd.Name.Name, "_regs") {
				continue
			}
			wrapperType := strings.TrimSuffix(fd.Name.Name, "_regs") + "_handler_wrapper"
			ast.Inspect(fd.Body, func(n ast.Node) bool {
				cl, ok := n.(*ast.CompositeLit)
				if !ok || cl.Type != nil {
					return true
				}
				var prog, vers, proc int64
				var hw string
				for _, el := range cl.Elts {
					kv, ok := el.(*ast.KeyValueExpr)
					if !ok {
						return true
					}
					switch kv.Key.(*ast.Ident).Name {
					case "Prog":
						prog, _ = x.constN(kv.Value)
					case "Vers":
						vers, _ = x.constN(kv.Value)
					case "Proc":
						proc, _ = x.constN(kv.Value)
					case "Handler":
						hw = kv.Value.(*ast.SelectorExpr).Sel.Name
					}
				}
				w, ok := wrappers[wrapperType+"."+hw]
				if !ok {
					x.bad(cl, "registration with unknown wrapper "+hw)
				}
				procs = append(procs, fmt.Sprintf("(%d, %d, %d, %q, %q, %q, %q)", prog, vers, proc, hw, w[0], w[1], w[2]))
				return true
			})
		}
	}
	// which tables do the two servers register?
	var regs []string
	for _, cmd := range []string{"go-nfsd", "simple-nfsd"} {
		cp := pkgs[cmd]
		if cp == nil {
			continue
		}
		for _, f := range cp.Syntax {
			ast.Inspect(f, func(n ast.Node) bool {
				call, ok := n.(*ast.CallExpr)
				if !ok {
					return true
				}
				se, ok := call.Fun.(*ast.SelectorExpr)
				if !ok || se.Sel.Name != "RegisterMany" || len(call.Args) != 1 {
					return true
				}
				if inner, ok := call.Args[0].(*ast.CallExpr); ok {
					if is, ok := inner.Fun.(*ast.SelectorExpr); ok {
						regs = append(regs, fmt.Sprintf("(%q, %q)", cmd, is.Sel.Name))
					}
				}
				return true
			})
		}
	}
	var sb strings.Builder
	sb.WriteString("(* GENERATED from nfstypes/nfs_xdr.go and cmd/*/main.go — do not edit *)\nFrom Coq Require Import List NArith String.\nFrom V Require Import Model.Xdr.\nImport ListNotations.\nOpen Scope string_scope.\nOpen Scope N_scope.\n\n")
	sb.WriteString("Definition gen_env : env := [\n")
	for i, e := range uniq {
		sep := ";"
		if i == len(uniq)-1 {
			sep = ""
		}
		fmt.Fprintf(&sb, "  (%q, %s)%s\n", e.name, e.term, sep)
	}
	sb.WriteString("].\n\n(* (program, version, procedure, wrapper, argument type, handler method, result type) *)\n")
	sb.WriteString("Definition gen_procs : list (N * N * N * string * string * string * string) := [\n  " + strings.Join(procs, ";\n  ") + "\n].\n\n")
	sb.WriteString("(* registration tables each server binary registers *)\nDefinition gen_registered : list (string * string) := [" + strings.Join(regs, "; ") + "].\n")
	return sb.String()
}

func init() {
	generators = append(generators, generator{"xdr", "GenXdr.v", genXdr})
}
