// Translator: regenerates coq/Gen/*.v from /repo's working tree (typed AST via go/packages).
// usage: translator <repo> <outdir>
package main

import (
	"encoding/json"
	"fmt"
	"os"
	"path/filepath"

	"golang.org/x/tools/go/packages"
)

type item struct {
	Ok  bool   `json:"ok"`
	Msg string `json:"msg,omitempty"`
}

var report = map[string]item{}

func guard(name string, f func() string) (out string) {
	defer func() {
		if e := recover(); e != nil {
			if u, ok := e.(unsupported); ok {
				report[name] = item{Ok: false, Msg: u.msg}
				out = ""
				return
			}
			report[name] = item{Ok: false, Msg: fmt.Sprint(e)}
			out = ""
		}
	}()
	s := f()
	report[name] = item{Ok: true}
	return s
}

var pkgs map[string]*packages.Package

func main() {
	repo, outdir := os.Args[1], os.Args[2]
	cfg := &packages.Config{Mode: packages.NeedName | packages.NeedFiles | packages.NeedSyntax | packages.NeedTypes | packages.NeedTypesInfo | packages.NeedDeps | packages.NeedImports, Dir: repo}
	ps, err := packages.Load(cfg, "./super", "./inode", "./dir", "./fh", "./nfs", "./nfstypes", "./simple", "./kvs", "./fstxn", "./alloctxn", "./cmd/go-nfsd", "./cmd/simple-nfsd")
	if err != nil {
		fmt.Fprintln(os.Stderr, err)
		os.Exit(2)
	}
	pkgs = map[string]*packages.Package{}
	for _, p := range ps {
		if len(p.Errors) > 0 {
			fmt.Fprintln(os.Stderr, p.Errors)
			os.Exit(2)
		}
		pkgs[p.Name+":"+p.PkgPath] = p
		pkgs[filepath.Base(p.PkgPath)] = p
	}
	write := func(name, text string) {
		if text != "" {
			os.WriteFile(filepath.Join(outdir, name), []byte(text), 0644)
		}
	}
	write("GenSuper.v", guard("super", func() string { return genSuper(pkgs["super"]) }))
	for _, g := range generators {
		g := g
		write(g.file, guard(g.name, func() string { return g.f() }))
	}
	b, _ := json.MarshalIndent(report, "", " ")
	os.WriteFile(filepath.Join(outdir, "gen_report.json"), b, 0644)
}

type generator struct {
	name, file string
	f          func() string
}

var generators []generator
