"""Concurrent histories: linearizability search with the extracted reference (C03) and race detector runs (C14)."""
import os, re, json
import vlib
from vlib import Failure


def run_history(ctx, prop, seed, clients, nops, shape, binary='h', tag='c'):
    trace = os.path.join(ctx.work, 'conc_%s.trace' % tag)
    rep = dict(seed=seed, clients=clients, nops=nops, shape=shape, how='%s conc -seed S -clients C -nops N -shape X -out T ; drv conc T' % binary)
    rc, o, e = vlib.sh([os.path.join(vlib.BIN, binary), 'conc', '-seed', str(seed), '-clients', str(clients), '-nops', str(nops),
                        '-shape', shape, '-out', trace], timeout=600)
    fails = []
    races = re.findall(r'WARNING: DATA RACE\n(?:.*\n){0,200}?==================', e or '')
    for r_ in races[:3]:
        funcs = re.findall(r'^\s+(github\.com/mit-pdos/go-nfsd/[^\s(]+)', r_, re.M)
        where = '|'.join(sorted(set(f.split('/')[-1] for f in funcs))[:6])
        fails.append(Failure(prop, 'race', where, r_[:1500], replay=dict(rep, report=r_[:3000])))
    if not races and 'WARNING: DATA RACE' in (e or ''):
        i0 = e.index('WARNING: DATA RACE')
        fails.append(Failure(prop, 'race', 'unparsed-report', e[i0:i0 + 1500], replay=dict(rep, report=e[i0:i0 + 3000])))
    if rc not in (0, 3, 66) and not races:
        fails.append(Failure(prop, 'panic', 'conc-harness', (e or o)[-600:], replay=rep))
    st = dict(lin='', ops=0, txns=0)
    if shape not in ('lsrace', 'crashshrink'):
        rc2, o2, e2 = vlib.sh('ulimit -s unlimited 2>/dev/null; exec %s conc %s' % (os.path.join(vlib.BIN, 'drv'), trace), timeout=900)
        for line in o2.splitlines():
            m = re.match(r'^N (\S+) (OK|BAD|UNKNOWN)(.*)$', line)
            if m:
                if m.group(1) == 'lin':
                    st['lin'] = m.group(2)
                if m.group(2) == 'BAD':
                    kind = {'lin': 'lin', 'txn': 'trace', 'crash': 'panic', 'final': 'wf', 'end': 'panic'}[m.group(1)]
                    detail = m.group(3).strip()
                    where = m.group(1)
                    if kind == 'trace':
                        where, _, detail = detail.partition(' ')
                    fails.append(Failure(prop, kind, where, detail[:400], replay=rep))
            m = re.match(r'^DONE ops=(\d+) txns=(\d+)', line)
            if m:
                st['ops'], st['txns'] = int(m.group(1)), int(m.group(2))
        if rc2 != 0:
            fails.append(Failure(prop, 'tie', 'conc-driver', (o2 + e2)[-400:], replay=rep))
    # a hang in which a READDIRPLUS transaction is stuck holding its directory is the wait-for cycle of the
    # lock-order violation its own trace shows: report it as that
    hung = [f for f in fails if f.kind == 'panic' and ('hang' in f.detail or f.detail.strip() == 'hung')]
    rdp = [f for f in fails if f.kind == 'trace' and f.where == 'readdirplus']
    if hung and rdp:
        keep = [f for f in fails if f not in hung and not (f.kind == 'trace' and 'lock-leak' in f.detail)]
        keep.append(Failure(prop, 'trace', 'readdirplus', 'lock-order deadlock: ' + '; '.join(f.detail for f in hung)[:300], replay=rep))
        fails = keep
    try:
        os.remove(trace)
    except OSError:
        pass
    return fails, st


def run(ctx, prop, plan, binary='h', kinds=None):
    """plan: list of (shape, clients, nops, count)"""
    fails = []
    tot = dict(histories=0, ops=0, txns=0, lin_ok=0, lin_unknown=0)
    samples = []
    k = 0
    for shape, clients, nops, count in plan:
        for i in range(count):
            k += 1
            fs, st = run_history(ctx, prop, ctx.seed * 1000 + k, clients, nops, shape, binary=binary, tag=str(k % 4))
            tot['histories'] += 1
            tot['ops'] += st['ops']
            tot['txns'] += st['txns']
            tot['lin_ok'] += 1 if st['lin'] == 'OK' else 0
            tot['lin_unknown'] += 1 if st['lin'] == 'UNKNOWN' else 0
            for f in fs:
                if kinds and f.kind not in kinds:
                    continue
                fails.append(f)
            if len(samples) < 3:
                samples.append(dict(shape=shape, clients=clients, nops=nops, seed=ctx.seed * 1000 + k, **st))
    cov = dict(evaluations=tot['histories'], distinct_nontrivial=tot['lin_ok'],
               rule='one evaluation = one concurrent history (clients x operations on the same names/files, seeded yields and sleeps at the lock and commit hook points): '
                    'a sequential order respecting real time is searched with the extracted reference as oracle and must end in the state abs_disk decodes from the final disk; '
                    'every transaction\'s event list is checked with the extracted two-phase / lock-order / balance predicates; non-trivial = histories for which an order was found',
               samples=samples, operations=tot['ops'], transactions=tot['txns'], search_budget_exhausted=tot['lin_unknown'],
               traces_validated_against_impl=tot['histories'])
    return fails, cov


def replay(ctx, path):
    r = json.load(open(path))
    fs, st = run_history(ctx, r.get('property', 'C03'), r['seed'], r['clients'], r['nops'], r['shape'], tag='replay')
    for f in fs:
        print(f)
    print(st)
    return 1 if fs else 0
