#!/usr/bin/env python3
"""xparse.py <prot.x> <out.v>: translate the RFC 1813 XDR specification (the .x file shipped with the
go-rpcgen module, from which the independent rfc1813 package is generated) into descriptor terms of
Model/Xdr.v (Gen/GenRfc.v).  Enumerations become 32-bit words with their value sets listed separately."""
import re, sys

src = open(sys.argv[1]).read()
src = re.sub(r'/\*.*?\*/', '', src, flags=re.S)
src = re.sub(r'//[^\n]*', '', src)
toks = re.findall(r'0x[0-9a-fA-F]+|[A-Za-z_][A-Za-z0-9_]*|-?\d+|[{}()\[\]<>;,=*:]', src)
pos = 0
consts = {}
types = {}      # name -> term
enums = {}      # name -> list of (ident, value)
procs = []      # (progname, prog, vers, procname, num, arg, res)


def peek():
    return toks[pos] if pos < len(toks) else None


def nxt():
    global pos
    t = toks[pos]
    pos += 1
    return t


def expect(t):
    x = nxt()
    assert x == t, 'expected %r got %r at %d: %s' % (t, x, pos, toks[max(0, pos - 8):pos + 3])


def value(t):
    if re.match(r'-?\d+$', t):
        return int(t)
    if t.startswith('0x'):
        return int(t, 16)
    if t in consts:
        return consts[t]
    for e in enums.values():
        for k, v in e:
            if k == t:
                return v
    if t == 'TRUE':
        return 1
    if t == 'FALSE':
        return 0
    raise KeyError(t)


def q(s):
    return '"%s"' % s


def base_type():
    """parse a type specifier, return term"""
    t = nxt()
    if t == 'unsigned':
        t2 = nxt()
        if t2 == 'hyper':
            return 'TU64'
        if t2 == 'int':
            return 'TU32'
        raise SyntaxError(t2)
    if t == 'int':
        return 'TU32'
    if t == 'hyper':
        return 'TU64'
    if t == 'bool':
        return 'TBool'
    if t in ('opaque', 'string', 'void'):
        return t
    if t in ('struct', 'enum', 'union'):
        raise SyntaxError('inline ' + t)
    return '(TRef %s)' % q(t)


def declaration():
    """type-specifier declarator ; -> (name, term) or None for void"""
    bt = base_type()
    if bt == 'void':
        expect(';')
        return None
    star = False
    if peek() == '*':
        nxt()
        star = True
    name = nxt()
    term = bt
    if peek() == '[':
        nxt()
        n = value(nxt())
        expect(']')
        assert bt == 'opaque'
        term = '(TFixed %d)' % n
    elif peek() == '<':
        nxt()
        mx = None
        if peek() != '>':
            mx = value(nxt())
        expect('>')
        if bt in ('opaque', 'string'):
            term = '(TVar %s)' % ('None' if mx is None else '(Some %d)' % mx)
        elif bt == 'TU32':
            term = 'TArr32'
        else:
            raise SyntaxError('array of ' + bt)
    elif bt in ('opaque', 'string'):
        raise SyntaxError('bare opaque')
    if star:
        term = '(TOpt %s)' % term
    expect(';')
    return name, term


def body_items(decls):
    return '[' + '; '.join('IField %s %s' % (q(n), t) for n, t in decls) + ']'


while pos < len(toks):
    t = nxt()
    if t == 'const':
        n = nxt()
        expect('=')
        consts[n] = value(nxt())
        expect(';')
    elif t == 'typedef':
        d = declaration()
        types[d[0]] = d[1]
    elif t == 'enum':
        n = nxt()
        expect('{')
        vals = []
        while True:
            k = nxt()
            expect('=')
            v = value(nxt())
            vals.append((k, v))
            if peek() == ',':
                nxt()
                continue
            break
        expect('}')
        expect(';')
        enums[n] = vals
        types[n] = 'TU32'
    elif t == 'struct':
        n = nxt()
        expect('{')
        ds = []
        while peek() != '}':
            ds.append(declaration())
        expect('}')
        expect(';')
        types[n] = '(TSeq %s)' % body_items(ds)
    elif t == 'union':
        n = nxt()
        expect('switch')
        expect('(')
        dt = base_type()
        dn = nxt()
        expect(')')
        expect('{')
        arms, dflt, pending = [], 'None', []
        while peek() != '}':
            if peek() == 'case':
                nxt()
                v = value(nxt())
                expect(':')
                pending.append(v)
                if peek() == 'case':
                    continue
                d = declaration()
                its = body_items([d] if d else [])
                for pv in pending:
                    arms.append('(%d, %s)' % (pv, its))
                pending = []
            elif peek() == 'default':
                nxt()
                expect(':')
                d = declaration()
                dflt = '(Some %s)' % body_items([d] if d else [])
            else:
                raise SyntaxError(peek())
        expect('}')
        expect(';')
        types[n] = '(TSeq [IField %s %s; ISwitch %s [%s] %s])' % (q(dn), dt, q(dn), '; '.join(arms), dflt)
    elif t == 'program':
        pn = nxt()
        expect('{')
        expect('version')
        vn = nxt()
        expect('{')
        pl = []
        while peek() != '}':
            res = nxt()
            name = nxt()
            expect('(')
            arg = nxt()
            expect(')')
            expect('=')
            num = value(nxt())
            expect(';')
            pl.append((name, num, arg, res))
        expect('}')
        expect('=')
        vers = value(nxt())
        expect(';')
        expect('}')
        expect('=')
        prog = value(nxt())
        expect(';')
        for name, num, arg, res in pl:
            procs.append((prog, vers, num, name, arg, res))
    else:
        raise SyntaxError('unexpected %r at %d' % (t, pos))

out = ['(* GENERATED from the RFC 1813 specification file prot.x of the go-rpcgen module — do not edit *)',
       'From Coq Require Import List NArith String.', 'From V Require Import Model.Xdr.', 'Import ListNotations.',
       'Open Scope string_scope.', 'Open Scope N_scope.', '', 'Definition rfc_env : env := [']
names = sorted(types)
for i, n in enumerate(names):
    out.append('  (%s, %s)%s' % (q(n), types[n], ';' if i < len(names) - 1 else ''))
out.append('].')
out.append('')
out.append('(* value sets of the enumerations (the codec of the repository treats them as plain 32-bit words) *)')
out.append('Definition rfc_enums : list (string * list N) := [')
en = sorted(enums)
for i, n in enumerate(en):
    out.append('  (%s, [%s])%s' % (q(n), '; '.join(str(v) for _, v in enums[n]), ';' if i < len(en) - 1 else ''))
out.append('].')
out.append('')
out.append('(* (program, version, procedure number, procedure name, argument type, result type) *)')
out.append('Definition rfc_procs : list (N * N * N * string * string * string) := [')
for i, (prog, vers, num, name, arg, res) in enumerate(procs):
    out.append('  (%d, %d, %d, %s, %s, %s)%s' % (prog, vers, num, q(name), q(arg), q(res), ';' if i < len(procs) - 1 else ''))
out.append('].')
open(sys.argv[2], 'w').write('\n'.join(out) + '\n')
