"""C07 — unstable-write contract: AM + WAL theorems, crash-image correspondence on stability-level mixes."""
import crashengine
TRUSTED = ['WM (Proofs/Wal.v) and WalDisk.recover_log are models of the go-journal dependency; validated per image against the real recovery']
ASSUMPTIONS = ['sequential client; a durability point is a successful mutating RPC other than an UNSTABLE write, a successful COMMIT, or a successful non-empty DATA_SYNC/FILE_SYNC write']


def run(ctx, ps, gen_bad):
    if ctx.quick:
        wl = [('unstablemix', 30, 3000, True, 200), ('unstablemix', 24, 3000, False, 100),
              # unstable data pending, a request too large for the journal, then COMMIT (defect fixed in b50158b)
              ('refused', 0, 3000, True, 60, ctx.seed * 4 + 3)]
    else:
        wl = [('unstablemix', 80, 3000, True, 4000), ('unstablemix', 60, 3000, False, 2000), ('unstablemix', 80, 5000, True, 4000)] * 2 + [('refused', 0, 3000, True, 200, ctx.seed * 4 + i) for i in range(4)]
    return crashengine.run(ctx, 'C07', wl)


def replay(ctx, path):
    return crashengine.replay(ctx, path)
