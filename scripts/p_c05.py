"""C05 — decided by theorems in coq/Props/C05.v plus the sequential correspondence engine (scripts/seqprops.py)."""
import json
import seqprops, crashengine
TRUSTED = ['AT (Model/AllocModel.v) is a hand transliteration of alloctxn/alloctxn.go, run against it (on-disk bitmap and allocator count after every operation)',
           'hand-written AM (Model/Afs.v), abs_disk/wf_disk (Model/Abs.v), agreement relations (Model/Agree.v): run extracted on the implementation disk and replies',
           'go-journal obj.Log.Load as the reader of the logical disk']
ASSUMPTIONS = ['sequential client; checkpoints are judged when the background shrinker is idle (some sequences let it overlap the following calls and wait at explicit points)',
               'crash part: one scripted large-file workload in four variants, crash points sampled from the freeing call onward']


def run(ctx, ps, gen_bad):
    fails, cov = seqprops.run(ctx, 'C05', ps, gen_bad)
    # crash images taken while a large file is being freed in the background (several transactions)
    n = 24 if ctx.quick else 400
    wl = [('bigshrink', 0, 3000, True, n, ctx.seed * 4 + 1), ('bigshrink', 0, 3000, True, n, ctx.seed * 4 + 2), ('bigshrink', 0, 3000, True, n * 2 // 3, ctx.seed * 4 + 4)]
    if not ctx.quick:
        wl += [('bigshrink', 0, 3000, True, n, ctx.seed * 4 + i) for i in (4, 5, 6, 7)] + [('crashmix', 60, 3000, True, 1500)]
    f2, c2 = crashengine.run(ctx, 'C05', wl, own=r"alloc|wf=\\S*(BitSetUnowned|FreeOwns|InodeBitFree|InodeLeak|BitClear)")
    fails += f2
    cov['crash_images_during_background_free'] = c2['evaluations']
    cov['crash_images_passing_every_relation'] = c2['distinct_nontrivial']
    cov['crash_rule'] = c2['rule']
    cov['evaluations'] += c2['evaluations']
    # alloctxn over the real allocator and bitmap, several transactions open at once, against the extracted AT
    import p_c13
    f3, n3 = p_c13.model_diff(ctx, 'atmodel', 5 if ctx.quick else 150, 600 if ctx.quick else 1500)
    fails += f3
    cov['allocation_operations_compared_with_AT'] = n3
    cov['evaluations'] += n3
    return fails, cov


def replay(ctx, path):
    r = json.load(open(path))
    if r.get('kind') == 'atmodel':
        import p_c13
        return p_c13.model_replay(ctx, r)
    if 'budget' in r:
        return crashengine.replay(ctx, path)
    return seqprops.replay(ctx, path)
