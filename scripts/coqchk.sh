#!/bin/bash
# independent re-check of every compiled property file and everything it depends on (about a minute)
cd "$(dirname "$0")/../coq" && coqchk -silent -o -Q . V $(for i in $(seq -w 1 19); do echo V.Props.C$i; done)
