"""C01 — crash atomicity and durability: WAL protocol theorems + crash-image correspondence."""
import crashengine
TRUSTED = ['WM (Proofs/Wal.v) and WalDisk.recover_log are models of the go-journal dependency; validated per image against the real recovery',
           'crash model of the recording disk: block writes atomic, Barrier persists everything written before it']
ASSUMPTIONS = ['sequential client; background logger/installer/shrinker run free while events are recorded']


def run(ctx, ps, gen_bad):
    if ctx.quick:
        wl = [('crashmix', 22, 3000, True, 240), ('crashmix', 22, 3000, False, 140), ('crashmix', 14, 9000, True, 140), ('unstablemix', 24, 3000, True, 160),
              # a 720-block file cut down / removed / renamed over: crash points inside the multi-transaction background free
              ('bigshrink', 0, 3000, True, 30, ctx.seed * 4 + 4), ('bigshrink', 0, 3000, True, 30, ctx.seed * 4 + 5),
              ('refused', 0, 3000, True, 60, ctx.seed * 4 + 1),
              # recorded from the empty disk on: the window in which the root directory exists only in the log
              ('firstboot', 0, 3000, True, 60, ctx.seed)]
    else:
        wl = [('crashmix', 60, 3000, True, 4000), ('crashmix', 60, 3000, False, 2500), ('crashmix', 40, 9000, True, 3000),
              ('reclaim', 50, 4000, True, 2500), ('generic', 60, 3000, True, 2500)] * 2 + [('bigshrink', 0, 3000, True, 400, ctx.seed * 4 + i) for i in range(4)]
    return crashengine.run(ctx, 'C01', wl)


def replay(ctx, path):
    return crashengine.replay(ctx, path)
