"""Crash-image correspondence: recorded workloads cut at every event prefix (C01, C07)."""
import os, re, json
import vlib
from vlib import Failure


def run_workload(ctx, prop, seed, nops, size, profile, unstable, budget, thorough=False, tag='w'):
    trace = os.path.join(ctx.work, 'crash_%s.trace' % tag)
    args = ['crash', '-seed', str(seed), '-nops', str(nops), '-size', str(size), '-profile', profile,
            '-out', trace, '-budget', str(budget), '-unstable=%s' % ('true' if unstable else 'false')]
    if thorough:
        args.append('-thorough')
    rc, o, e = vlib.harness(args, timeout=3000)
    fails = []
    rep = dict(seed=seed, nops=nops, size=size, profile=profile, unstable=unstable, budget=budget, thorough=thorough,
               how='h crash <these flags> -out T ; drv crash T')
    if rc != 0:
        fails.append(Failure(prop, 'panic', 'crash-harness', (e or o)[-600:], replay=rep))
        return fails, dict(images=0, ok=0, events=0, ops=0)
    rc, o, e = vlib.sh('ulimit -s unlimited 2>/dev/null || ulimit -s 4000000; exec %s crash %s' % (os.path.join(vlib.BIN, 'drv'), trace), timeout=3000)
    st = dict(images=0, ok=0, events=0, ops=0, lost='')
    for line in o.splitlines():
        m = re.match(r'^G (\d+) (\S+) BAD (window=\S+) (.*)$', line)
        if m:
            detail = m.group(4)
            # normalise numbers so that one defect is one signature
            where = re.sub(r'\d+', 'N', detail.split(':')[0].split('=')[0])[:60]
            fails.append(Failure(prop, 'crash', where, detail[:400], replay=dict(rep, crash_point=int(m.group(1)), pattern=m.group(2), window=m.group(3))))
        m = re.match(r'^DONE images=(\d+) ok=(\d+) bad=(\d+) ops=(\d+) events=(\d+) lost_suffix_hist=(\S*)', line)
        if m:
            st = dict(images=int(m.group(1)), ok=int(m.group(2)), ops=int(m.group(4)), events=int(m.group(5)), lost=m.group(6))
    if rc != 0 or st['images'] == 0:
        fails.append(Failure(prop, 'tie', 'crash-driver', (o + e)[-500:], replay=rep))
    try:
        os.remove(trace)
    except OSError:
        pass
    return fails, st


def run(ctx, prop, workloads, own=None):
    """workloads: list of (profile, nops, size, unstable, budget[, seed]); own: regex on the failure detail selecting
       the relations this property owns (None: all)"""
    fails = []
    tot = dict(images=0, ok=0, events=0, ops=0, workloads=0)
    samples = []
    for k, wl in enumerate(workloads):
        profile, nops, size, unstable, budget = wl[:5]
        seed = wl[5] if len(wl) > 5 else ctx.seed * 101 + k
        fs, st = run_workload(ctx, prop, seed, nops, size, profile, unstable, budget, thorough=not ctx.quick, tag=str(k))
        # one failure per signature per workload
        seen = set()
        for f in fs:
            if f.where in seen:
                continue
            if own and f.kind == 'crash' and not re.search(own, f.detail):
                continue
            seen.add(f.where)
            fails.append(f)
        tot['workloads'] += 1
        for a in ('images', 'ok', 'events', 'ops'):
            tot[a] += st.get(a, 0)
        samples.append(dict(profile=profile, nops=nops, size=size, unstable=unstable, images=st.get('images'), events=st.get('events'),
                            distance_of_recovered_prefix_from_last_issued_op=st.get('lost')))
    cov = dict(evaluations=tot['images'], distinct_nontrivial=tot['ok'],
               rule='one evaluation = one crash image (event prefix of the recorded disk trace, un-barriered writes kept or lost per pattern): '
                    'model recovery of the image (extracted WalDisk.recover_log) must equal what the real recovery sees, wf_disk must be empty, '
                    'abs_disk must equal the reference state after a prefix of the calls inside [last stable-acknowledged, last issued], the '
                    'recovered server\'s allocators must equal the bitmaps and it must serve a further create/write/read/list/remove correctly; '
                    'non-trivial = images that passed every relation (all are distinct crash points)',
               samples=samples, workloads=tot['workloads'], disk_events=tot['events'], operations=tot['ops'],
               traces_validated_against_impl=tot['workloads'])
    return fails, cov


def replay(ctx, path):
    r = json.load(open(path))
    fs, st = run_workload(ctx, r.get('property', 'C01'), r['seed'], r['nops'], r['size'], r['profile'], r['unstable'], r['budget'], r.get('thorough', False), tag='replay')
    for f in fs:
        print(f.replay.get('crash_point'), f.replay.get('pattern'), f.detail[:300])
    print(st)
    return 1 if fs else 0
