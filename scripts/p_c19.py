"""C19 — decided by theorems in coq/Props/C19.v plus scripted workloads on the sequential correspondence engine."""
import seqprops
TRUSTED = ['AM (Model/Afs.v) with the limits the server itself announces in FSINFO/PATHCONF as parameters; Agree.dir_agree / readdir_matches_model for listings']
ASSUMPTIONS = ['sequential client; disks large enough that space is not the limiting factor']


def run(ctx, ps, gen_bad):
    return seqprops.run(ctx, 'C19', ps, gen_bad)


def replay(ctx, path):
    return seqprops.replay(ctx, path)
