#!/bin/bash
# trymut.sh <patch.diff> <Cnn> [<Cnn> ...] : apply a seeded change to /repo, run the checks, undo it
P=$1; shift
cd /repo && git status --short | grep -v '^??' && { echo "repo not clean"; exit 2; }
git -C /repo apply $P || { echo "patch does not apply"; exit 2; }
for c in "$@"; do
  echo "=== $c on $(basename $(dirname $P))"
  (cd /verif && timeout 1500 ./check $c 2>&1 | grep -E "VIOLATION|KNOWN|violations" | cut -c1-250)
done
git -C /repo checkout -- .
