"""C04 — decided by theorems in coq/Props/C04.v plus the sequential correspondence engine (scripts/seqprops.py)."""
import json
import seqprops, crashengine
TRUSTED = ['hand-written AM (Model/Afs.v), abs_disk/wf_disk (Model/Abs.v), agreement relations (Model/Agree.v): run extracted on the implementation disk and replies',
           'go-journal obj.Log.Load as the reader of the logical disk']
ASSUMPTIONS = ['sequential client; checkpoints are judged when the background shrinker is idle (some sequences let it overlap the following calls and wait at explicit points)',
               'crash part: one scripted large-file workload in four variants, crash points sampled from the freeing call onward']


def run(ctx, ps, gen_bad):
    fails, cov = seqprops.run(ctx, 'C04', ps, gen_bad)
    # crash images taken while a large file is being freed in the background (several transactions)
    n = 24 if ctx.quick else 400
    wl = [('bigshrink', 0, 3000, True, n, ctx.seed * 4 + 0), ('bigshrink', 0, 3000, True, n, ctx.seed * 4 + 3),
          ('firstboot', 0, 3000, True, 2 * n, ctx.seed)]
    if not ctx.quick:
        wl += [('bigshrink', 0, 3000, True, n, ctx.seed * 4 + i) for i in (4, 5, 6, 7)] + [('crashmix', 60, 3000, True, 1500)]
    f2, c2 = crashengine.run(ctx, 'C04', wl, own=r"wf=|recovered-disk-differs")
    fails += f2
    cov['crash_images_during_background_free'] = c2['evaluations']
    cov['crash_images_passing_every_relation'] = c2['distinct_nontrivial']
    cov['crash_rule'] = c2['rule']
    cov['evaluations'] += c2['evaluations']
    # a REMOVE held between giving up and re-taking its locks while the name is bound to another object: the disk the
    # history ends on must be well-formed (and the history explained by a sequential order)
    import concengine
    f3, c3 = concengine.run(ctx, 'C04', [('rmrebind', 3, 6, 5 if ctx.quick else 120)], kinds={'wf', 'lin', 'panic'})
    fails += f3
    cov['concurrent_histories_with_a_rebound_name'] = c3['evaluations']
    cov['evaluations'] += c3['evaluations']
    return fails, cov


def replay(ctx, path):
    if 'shape' in json.load(open(path)):
        import concengine
        return concengine.replay(ctx, path)
    if 'budget' in json.load(open(path)):
        return crashengine.replay(ctx, path)
    return seqprops.replay(ctx, path)
