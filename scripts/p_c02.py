"""C02 — decided by theorems in coq/Props/C02.v plus the sequential correspondence engine (scripts/seqprops.py)."""
import seqprops
TRUSTED = ['hand-written AM (Model/Afs.v), abs_disk/wf_disk (Model/Abs.v), agreement relations (Model/Agree.v): run extracted on the implementation disk and replies',
           'go-journal obj.Log.Load as the reader of the logical disk']
ASSUMPTIONS = ['sequential client; checkpoints taken after each RPC has returned and the background shrinker is idle']


def run(ctx, ps, gen_bad):
    return seqprops.run(ctx, 'C02', ps, gen_bad)


def replay(ctx, path):
    return seqprops.replay(ctx, path)
