"""Sequential correspondence engine: generated operation sequences run on the real
server; the extracted AM / abs_disk / wf_disk judge every step."""
import json, os, shutil
import vlib
from vlib import Failure

# which failure kinds belong to which property
KINDS = {
    'C02': {'reply', 'abs'},
    'C04': {'wf'},
    'C05': {'alloc', 'wf'},
    'C06': {'trace', 'panic'},
    'C01': {'trace'},
    'C07': {'trace'},
    'C08': {'reply'},
    'C09': {'abs', 'alloc', 'wf', 'reply', 'cache'},
    'C10': {'abs', 'alloc', 'reply', 'cache', 'twin'},
    'C11': {'panic'},
    'C12': {'wf', 'reply', 'abs'},
    'C13': {'reply'},
    'C19': {'reply', 'abs', 'wf'},
}


# a call that crashes or hangs the server has no reply at all: it fails every property judged on replies
for _k, _v in KINDS.items():
    if 'reply' in _v:
        _v.add('panic')


def load_corpus(prop):
    d = os.path.join(vlib.V, 'corpus')
    out = []
    if os.path.isdir(d):
        for f in sorted(os.listdir(d)):
            if f.endswith('.ops'):
                hdr, ops = vlib.read_ops(os.path.join(d, f))
                props = hdr.get('props', '').split(',')
                if prop in props or 'all' in props:
                    out.append((f, hdr, ops))
    return out


def signature(step):
    kind, detail = vlib.classify(step)
    return kind, step['proc'], detail


def judge_trace(trace):
    steps, done = vlib.run_drv(trace)
    return steps, done


def run_profile(ctx, prop, profile, nseq, nops, size, kinds=None, seed_off=0, shrink=True, accept=None, survive_only=False, ignore_foreign=False):
    """returns (failures, stats). accept(step, kind, detail) -> True to ignore a failing step (never used to hide a
       property's own failures: only failures of *other* relations that another check owns)."""
    kinds = kinds or KINDS[prop]
    outdir = os.path.join(ctx.work, 'seq_%s' % profile)
    rc, res, err = vlib.run_seq(outdir, ctx.seed + seed_off, nseq, nops, size=size, profile=profile)
    fails = []
    stats = dict(sequences=0, steps=0, hist={}, cut_short=0, nontrivial=set())
    if rc != 0 and not res:
        fails.append(Failure(prop, 'panic', 'harness', 'harness died: ' + err[-600:], replay=dict(profile=profile, size=size)))
        return fails, stats
    # the model driver judges the traces of one batch in parallel (one process per trace)
    from concurrent.futures import ThreadPoolExecutor
    with ThreadPoolExecutor(max_workers=min(12, max(1, len(res)))) as pool:
        judged = list(pool.map(lambda r_: vlib.run_drv(r_['trace'], noabs=True) if survive_only else judge_trace(r_['trace']), res))
    for r, (steps, done) in zip(res, judged):
        if len([x for x in fails if not getattr(x, 'foreign', False) and not getattr(x, 'kf', None)]) >= 5:
            break   # five violations of this property from one workload are enough (each costs replays)
        stats['sequences'] += 1
        for k, v in (r.get('hist') or {}).items():
            stats['hist'][k] = stats['hist'].get(k, 0) + v
        if survive_only:
            # only the question whether the server survived (panic / hang / livelock) is asked
            for s_ in steps:
                if not s_['panic']:
                    s_.update(reply=1, nabs=0, nwf=0, alloc=1, trace=1)
        stats['steps'] += len(steps)
        hdr, ops = vlib.read_ops(r['ops'])
        for s in steps:
            if s['proc'] not in ('init', '') and not s['panic'] and s['reply']:
                stats['nontrivial'].add(hash((s['proc'], s['id'], r['index'])))
        if r.get('panic'):
            steps.append(dict(id='?', proc='server', panic=True, reply=1, nabs=0, nwf=0, alloc=1, detail=r['panic'][:600]))
        try:
            if vlib.first_failure(steps) is not None:
                # keep the trace of a failing sequence for diagnosis (bounded: one directory, overwritten per profile/index)
                kd = os.path.join(vlib.V, '.work', 'failed_traces')
                os.makedirs(kd, exist_ok=True)
                if os.path.getsize(r['trace']) <= 8 << 20 and len(os.listdir(kd)) < 40:
                    os.replace(r['trace'], os.path.join(kd, '%s_%s_%d.trace' % (prop, profile, r['index'])))
                else:
                    os.remove(r['trace'])   # (disk space: large traces and long series are not kept)
            else:
                os.remove(r['trace'])
        except OSError:
            pass
        # a step that only hits an open finding and leaves model and implementation in agreement
        # (no abstraction mismatch) does not end the sequence
        findings = vlib.load_findings()
        i = None
        for j, s_ in enumerate(steps):
            if s_['panic'] or not s_['reply'] or s_['nabs'] or s_['nwf'] or not s_['alloc'] or not s_.get('trace', 1):
                k_, p_, d_ = signature(s_)
                kf = vlib.match_finding(Failure(prop, k_, p_, d_), findings)
                # reference and implementation still agree on replies and on the abstract state (an invariant violation
                # that the abstraction does not see, e.g. a leaked inode, is some other property's and does not stop the run)
                # (a twin comparison that differs says the running server and a restarted one disagree, not that reference
                #  and implementation do: for properties that do not own it the run goes on)
                benign = not s_['panic'] and s_['nabs'] == 0 and (s_['reply'] or k_ == 'twin')
                if kf is None and (benign or ignore_foreign) and not any(a in kinds for a, _ in vlib.classify_all(s_)):
                    # a relation another property owns failed, but reference and implementation still agree: go on
                    stats.setdefault('foreign_benign', []).append('%s/%s/%s' % (k_, p_, d_[:60]))
                    continue
                if kf is not None and not s_['panic'] and s_['nabs'] == 0 and s_['nwf'] == 0 and s_['alloc']:
                    f0 = Failure(prop, k_, p_, d_, replay=dict(header=hdr, ops=ops, failing_step=s_['id'], profile=profile))
                    f0.foreign = False
                    if kf['id'] not in [getattr(x, 'kf', None) for x in fails]:
                        f0.kf = kf['id']
                        fails.append(f0)
                    continue
                i = j
                break
        if i is None:
            continue
        st = steps[i]
        kind, proc, detail = signature(st)
        stats['cut_short'] += 1
        # minimise
        small = ops
        final_step = st
        nshrunk = stats.setdefault('nshrunk', 0)
        owned_here = any(a in kinds for a, _ in vlib.classify_all(st))
        if shrink and owned_here and kind != 'panic' and len(ops) > 1 and nshrunk < 3:
            stats['nshrunk'] = nshrunk + 1
            upto = [o for o in ops if int(o.split()[0]) <= int(st['id'])] if st['id'].isdigit() else ops

            def first_owned(ss):
                # the first step that breaks a relation of this property (failures of other relations, e.g. an open
                # finding of another property earlier in the sequence, are not what is being minimised)
                for j_, x in enumerate(ss):
                    if (x['panic'] or not x['reply'] or x['nabs'] or x['nwf'] or not x['alloc'] or not x.get('trace', 1)) and \
                            any(a in kinds or a == 'panic' for a, _ in vlib.classify_all(x)):
                        return j_
                return None

            def pred(ss):
                j = first_owned(ss)
                return j is not None and ss[j]['proc'] == proc
            small = vlib.shrink(hdr, upto, pred, budget=20 if len(upto) < 2000 else 4)
            ss, _, _ = vlib.judge_ops(hdr, small, 'final')
            j = first_owned(ss)
            if j is not None:
                kind, proc, detail = signature(ss[j])
                final_step = ss[j]
        # a sequential history is deterministic up to the timing of background threads: a failure that the same
        # operations do not show again in two further runs is recorded as an unreproduced observation (trace kept
        # under .work/failed_traces), not reported as a violation - a violation comes with a replay that replays
        if owned_here and small is ops and (kind, proc) not in stats.setdefault('reproduced_sigs', set()):
            again = False
            for _ in range(2):
                ss2, _, _ = vlib.judge_ops(hdr, ops, 'again')
                if any(any(a in kinds or a == 'panic' for a, _ in vlib.classify_all(x)) for x in ss2
                       if (x['panic'] or not x['reply'] or x['nabs'] or x['nwf'] or not x['alloc'] or not x.get('trace', 1))):
                    again = True
                    break
            if again:
                stats['reproduced_sigs'].add((kind, proc))   # later sequences with the same signature are believed
            if not again:
                stats.setdefault('unreproduced', []).append('%s/%s/%s step %s of %s seq %d' % (kind, proc, detail[:80], st['id'], profile, r['index']))
                continue
        # a step may break several relations at once: the property owns the failure if any of them is its own
        allk = vlib.classify_all(final_step)
        own = [(k_, d_) for k_, d_ in allk if k_ in kinds]
        if own and kind not in kinds:
            kind, detail = own[0]
        f = Failure(prop, kind, proc, detail, replay=dict(header=hdr, ops=small, failing_step=st['id'], profile=profile))
        f.foreign = kind not in kinds
        fails.append(f)
    return fails, stats


def replay_file(ctx, path):
    r = json.load(open(path))
    hdr, ops = r.get('header', {}), r.get('ops', [])
    steps, done, _ = vlib.judge_ops(hdr, ops, 'replay')
    for s in steps:
        print('S', s['id'], s['proc'], 'PANIC' if s['panic'] else 'REPLY=%d NABS=%d NWF=%d ALLOC=%d %s' % (s['reply'], s['nabs'], s['nwf'], s['alloc'], s['detail']))
    i = vlib.first_failure(steps)
    if i is None:
        print('replay: no failure')
        return 0
    print('replay: first failure at step', steps[i]['id'], vlib.classify(steps[i]))
    return 1
