#!/usr/bin/env python3
"""explore.py <profile> [nseq] [nops] [size] [seed]: run the sequential engine and print shrunk failures"""
import sys, os
sys.path.insert(0, os.path.dirname(os.path.abspath(__file__)))
import vlib, seqengine, framework
prep = vlib.prepare()
prof = sys.argv[1]
nseq = int(sys.argv[2]) if len(sys.argv) > 2 else 12
nops = int(sys.argv[3]) if len(sys.argv) > 3 else 60
size = int(sys.argv[4]) if len(sys.argv) > 4 else 4000
seed = int(sys.argv[5]) if len(sys.argv) > 5 else 1
ctx = framework.Ctx('C02', 'quick', seed, prep)
fs, st = seqengine.run_profile(ctx, 'C02', prof, nseq, nops, size)
for f in fs:
    ops = f.replay.get('ops', [])
    print(prof, f, len(ops), 'ops')
    for o in ops[-4:]:
        print('     ', o[:150])
print({k: v for k, v in st.items() if k not in ('nontrivial', 'hist')})
