#!/bin/bash
# run every claimed check once in the thorough tier and summarise (hours)
cd "$(dirname "$0")/.."
[ -n "$VP_RUN_REPO" ] && export VERIF_REPO=$VP_RUN_REPO
./setup.sh > .work_setup.log 2>&1 || { echo "setup failed"; tail -20 .work_setup.log; exit 1; }
for c in ${@:-C15 C16 C17 C18 C19 C13 C06 C08 C12 C04 C05 C09 C10 C02 C01 C07 C03 C14 C11}; do
  s=$(date +%s); out=$(timeout 7200 ./check $c --tier thorough 2>&1); rc=$?; e=$(date +%s)
  echo "$c rc=$rc $((e-s))s $(echo "$out" | grep -c VIOLATION) violations; $(echo "$out" | grep -o 'known findings \[[^]]*\]')"
  echo "$out" | grep VIOLATION | head -3
done
