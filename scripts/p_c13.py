"""C13 — decided by theorems in coq/Props/C13.v plus scripted workloads on the sequential correspondence engine and the
differential run of the directory layer against the extracted DM."""
import os, re
import seqprops, vlib
from vlib import Failure
TRUSTED = ['AM (Model/Afs.v) with the limits the server itself announces in FSINFO/PATHCONF as parameters; Agree.dir_agree / readdir_matches_model for listings',
           'DM (Model/DirModel.v) is a hand transliteration of dir/dir.go + dir/dcache.go, run against them (result, slots, cache, Lastoff after every operation)']
ASSUMPTIONS = ['sequential client; disks large enough that space is not the limiting factor']


def model_diff(ctx, mode, nruns, nops):
    """a layer of the code driven directly by the harness (`h <mode>`), operation by operation, against its extracted
       model (`drv <mode>`): dirmodel = dir.LookupName/AddName/RemName + name cache vs DM; atmodel = alloctxn over the
       real allocator and bitmap vs AT; icmodel = fstxn transactions locking / editing / logging / committing / aborting
       inodes vs IC"""
    fails, ops = [], 0
    for k in range(nruns):
        seed = ctx.seed * 100 + k
        trace = os.path.join(ctx.work, mode + '.trace')
        rep = dict(kind=mode, seed=seed, nops=nops, how='h %s -seed S -nops N -out T ; drv %s T' % (mode, mode))
        rc, o, e = vlib.harness([mode, '-seed', str(seed), '-nops', str(nops), '-out', trace], timeout=300)
        if rc != 0:
            fails.append(Failure(ctx.prop, 'panic', mode + '-harness', (e or o)[-400:], replay=rep))
            continue
        rc2, o, e = vlib.sh('ulimit -s unlimited 2>/dev/null; exec %s %s %s' % (os.path.join(vlib.BIN, 'drv'), mode, trace), timeout=300)
        done = False
        for line in o.splitlines():
            m = re.match(r'^[DAI] (\d+) BAD (\S+?):(.*)$', line)
            if m and not [f for f in fails if f.where == m.group(2)]:
                fails.append(Failure(ctx.prop, mode, m.group(2), m.group(3)[:300], replay=dict(rep, op_index=int(m.group(1)))))
            m = re.match(r'^DONE ops=(\d+) bad=(\d+)', line)
            if m:
                done = True
                ops += int(m.group(1))
        if rc2 != 0 or not done:
            fails.append(Failure(ctx.prop, 'tie', mode + '-driver', (o + e)[-400:], replay=rep))
    return fails, ops


def model_replay(ctx, r):
    mode = r['kind']
    trace = os.path.join(ctx.work, mode + '_replay.trace')
    rc, o, e = vlib.harness([mode, '-seed', str(r['seed']), '-nops', str(r['nops']), '-out', trace], timeout=300)
    rc2, o, e = vlib.sh('ulimit -s unlimited 2>/dev/null; exec %s %s %s' % (os.path.join(vlib.BIN, 'drv'), mode, trace), timeout=300)
    print(o[-2000:])
    return 1 if ' BAD ' in o or rc != 0 else 0


def dirmodel(ctx, nruns, nops):
    return model_diff(ctx, 'dirmodel', nruns, nops)


def run(ctx, ps, gen_bad):
    fails, cov = seqprops.run(ctx, 'C13', ps, gen_bad)
    f2, n = dirmodel(ctx, 6 if ctx.quick else 120, 600 if ctx.quick else 1500)
    fails += f2
    cov['directory_layer_operations_compared_with_DM'] = n
    cov['evaluations'] += n
    return fails, cov


def replay(ctx, path):
    import json
    r = json.load(open(path))
    if r.get('kind') == 'dirmodel':
        return model_replay(ctx, r)
    return seqprops.replay(ctx, path)
