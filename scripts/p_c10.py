"""C10 — running server = restart from its disk: layout round-trip theorems + R-cache + twin-server comparison."""
import json
import seqprops, crashengine
TRUSTED = ['IC (Model/IcacheModel.v) is a hand model of the cache protocol of fstxn, run against it (committed and cached encoding of every inode after every operation)',
           'hand transcription of inode/dirent/handle layouts (Model/Layout.v), tied on every cached inode (bytes = server Encode(), re-encoding reproduces them)',
           'twin comparison walks both servers through the public NFS procedures only']
ASSUMPTIONS = ['quiescent points: no RPC in flight, shrinker idle, unstable data committed before the comparison']


def run(ctx, ps, gen_bad):
    fails, cov = seqprops.run(ctx, 'C10', ps, gen_bad)
    # a server recovered from a crash image taken inside a background free keeps serving: what it answers and what it
    # leaves on disk must be what the reference says (the first object it creates may draw a half-freed inode number)
    n = 20 if ctx.quick else 300
    wl = [('bigshrink', 0, 3000, True, n, ctx.seed * 4 + 1), ('bigshrink', 0, 3000, True, n, ctx.seed * 4 + 3)]
    f2, c2 = crashengine.run(ctx, 'C10', wl, own=r"suffix-|post-suffix|alloc-after-recovery")
    fails += f2
    cov['crash_images_with_post_recovery_calls'] = c2['evaluations']
    cov['evaluations'] += c2['evaluations']
    # the inode cache under interleaved transactions (lock, edit in place, log, commit, abort), against the extracted IC:
    # committed and cached encoding of every inode after every operation
    import p_c13
    f3, n3 = p_c13.model_diff(ctx, 'icmodel', 5 if ctx.quick else 150, 500 if ctx.quick else 1500)
    fails += f3
    cov['inode_cache_operations_compared_with_IC'] = n3
    cov['evaluations'] += n3
    return fails, cov


def replay(ctx, path):
    r = json.load(open(path))
    if r.get('kind') == 'icmodel':
        import p_c13
        return p_c13.model_replay(ctx, r)
    if 'budget' in r:
        return crashengine.replay(ctx, path)
    return seqprops.replay(ctx, path)
