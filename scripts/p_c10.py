"""C10 — running server = restart from its disk: layout round-trip theorems + R-cache + twin-server comparison."""
import seqprops
TRUSTED = ['hand transcription of inode/dirent/handle layouts (Model/Layout.v), tied on every cached inode (bytes = server Encode(), re-encoding reproduces them)',
           'twin comparison walks both servers through the public NFS procedures only']
ASSUMPTIONS = ['quiescent points: no RPC in flight, shrinker idle, unstable data committed before the comparison']


def run(ctx, ps, gen_bad):
    return seqprops.run(ctx, 'C10', ps, gen_bad)


def replay(ctx, path):
    return seqprops.replay(ctx, path)
