"""C10 — running server = restart from its disk: layout round-trip theorems + R-cache + twin-server comparison."""
import json
import seqprops, crashengine
TRUSTED = ['hand transcription of inode/dirent/handle layouts (Model/Layout.v), tied on every cached inode (bytes = server Encode(), re-encoding reproduces them)',
           'twin comparison walks both servers through the public NFS procedures only']
ASSUMPTIONS = ['quiescent points: no RPC in flight, shrinker idle, unstable data committed before the comparison']


def run(ctx, ps, gen_bad):
    fails, cov = seqprops.run(ctx, 'C10', ps, gen_bad)
    # a server recovered from a crash image taken inside a background free keeps serving: what it answers and what it
    # leaves on disk must be what the reference says (the first object it creates may draw a half-freed inode number)
    n = 20 if ctx.quick else 300
    wl = [('bigshrink', 0, 3000, True, n, ctx.seed * 4 + 1), ('bigshrink', 0, 3000, True, n, ctx.seed * 4 + 3)]
    f2, c2 = crashengine.run(ctx, 'C10', wl, own=r"suffix-|post-suffix|alloc-after-recovery")
    fails += f2
    cov['crash_images_with_post_recovery_calls'] = c2['evaluations']
    cov['evaluations'] += c2['evaluations']
    return fails, cov


def replay(ctx, path):
    if 'budget' in json.load(open(path)):
        return crashengine.replay(ctx, path)
    return seqprops.replay(ctx, path)
