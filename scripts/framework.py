"""Verdict protocol shared by all property checks (DESIGN 2.3)."""
import importlib, json, os, re, sys, time, traceback
import vlib
from vlib import V, Failure

TRUSTED_COMMON = [
    'Coq 8.16.1 kernel (vm_compute used, native_compute not used)',
    'extraction with ExtrOcamlBasic only (no Extract Constant / Extract Inductive beyond it)',
    'OCaml driver /verif/ocaml/drv.ml (parsing and value conversion only)',
    'Go harness /verif/harness (sparse recording disk, generators); translator /verif/translator',
]


class Ctx:
    def __init__(self, prop, tier, seed, prep):
        self.prop, self.tier, self.seed, self.prep = prop, tier, seed, prep
        self.quick = tier == 'quick'
        self.work = os.path.join(vlib.WORK, prop)
        os.makedirs(self.work, exist_ok=True)


def proof_status(prop, extra_files=()):
    """compile Props/<prop>.v; returns dict(obligations, discharged, axioms, broken:[(file,msg)])"""
    cq = os.path.join(V, 'coq')
    pf = 'Props/%s.v' % prop
    res = dict(obligations=0, discharged=0, axioms=[], broken=[], theorems=[])
    if not os.path.exists(os.path.join(cq, pf)):
        res['broken'].append((pf, 'missing'))
        return res
    names = vlib.theorem_names(pf)
    res['theorems'] = names
    res['obligations'] = len(names)
    # make the file (and its dependencies)
    ok, errs = vlib.coq_make([pf + 'o'])
    if not ok:
        res['broken'] = errs
        return res
    rc, out = vlib.print_assumptions_of(pf)
    if rc != 0:
        res['broken'].append((pf, out[-800:]))
        return res
    res['discharged'] = len(names)
    ax = set()
    for m in re.finditer(r'Axioms:\n((?:.+\n)+?)(?=\n|Closed|$)', out):
        for line in m.group(1).splitlines():
            mm = re.match(r'^(\S+)\s*:', line)
            if mm:
                ax.add(mm.group(1))
    res['axioms'] = sorted(ax)
    return res


def main(prop, tier, seed, replay):
    t0 = time.time()
    try:
        mod = importlib.import_module('p_' + prop.lower())
    except ImportError as ex:
        print('no check for', prop, ex)
        return 2
    prep = vlib.prepare(need_harness=True)
    ctx = Ctx(prop, tier, seed, prep)
    findings = vlib.load_findings()
    failures = []
    # --- the tie: translator items + build of the harness
    if not prep.get('harness_ok', True):
        failures.append(Failure(prop, 'tie', 'harness-build', prep.get('harness_err', '')[-500:]))
    gen_bad = {k: v for k, v in prep['gen'].get('items', {}).items() if not v.get('ok')}
    ps = proof_status(prop)
    if replay:
        return mod.replay(ctx, replay)
    cov = {}
    try:
        fs, cov = mod.run(ctx, ps, gen_bad)
        failures += fs
    except Exception:
        failures.append(Failure(prop, 'tie', 'check-crashed', traceback.format_exc()[-1500:]))
    # --- broken proof obligations / translator items of this property
    proof_broken = bool(ps['broken'])
    relevant_gen = {k: v for k, v in gen_bad.items() if k in getattr(mod, 'GEN_ITEMS', [])}
    # --- verdict
    exit_code = 0
    nviol = 0
    known_hit = []
    reported = set()
    for f in failures:
        k = vlib.match_finding(f, findings)
        if k is not None:
            if k['id'] not in known_hit:
                known_hit.append(k['id'])
                print('KNOWN-FINDING: property=%s %s' % (prop, k['what']))
            continue
        sig = f.sig()[:160]
        if sig in reported:
            continue
        reported.add(sig)
        nviol += 1
        if nviol > 5:
            continue
        rp = vlib.write_replay(prop, '%s_%d' % (f.kind, nviol),
                               dict(dict(property=prop, kind=f.kind, where=f.where, detail=f.detail, seed=seed, tier=tier), **f.replay))
        print('VIOLATION property=%s replay=%s' % (prop, rp))
        exit_code = 1
    if (proof_broken or relevant_gen) and nviol == 0:
        # the property is no longer shown to hold and no failing input was found
        rp = vlib.write_replay(prop, 'unproved',
                               dict(property=prop, kind='proof', broken=[list(b) for b in ps['broken']],
                                    translator_items=relevant_gen, searched=cov.get('search', 'correspondence run of this check'),
                                    seed=seed, tier=tier))
        print('VIOLATION property=%s replay=%s no-failing-input-found' % (prop, rp))
        nviol += 1
        exit_code = 1
    coverage = dict(obligations=max(ps['obligations'], 1), discharged=ps['discharged'],
                    checker_cmd='cd /verif/coq && make Props/%s.vo && coqc -Q . V Props/%s.v (Print Assumptions)' % (prop, prop),
                    trusted_base=TRUSTED_COMMON + ['axioms reported by Print Assumptions: ' + (', '.join(ps['axioms']) or 'none (closed under the global context)')]
                    + getattr(mod, 'TRUSTED', []),
                    theorems=ps['theorems'], proof_broken=[list(b) for b in ps['broken']],
                    translator_items_failed=relevant_gen, gen_changed=prep['gen'].get('changed', []),
                    known_findings_hit=known_hit)
    coverage.update(cov)
    if 'evaluations' not in coverage:
        coverage['evaluations'] = 1
    if 'distinct_nontrivial' not in coverage:
        coverage['distinct_nontrivial'] = 0
    vlib.write_evidence(prop, tier, seed, 'proof', coverage, time.time() - t0, nviol, getattr(mod, 'ASSUMPTIONS', []))
    print('%s %s: obligations %d/%d, correspondence evaluations %s, violations %d, known findings %s, %.1fs' % (
        prop, tier, ps['discharged'], ps['obligations'], coverage.get('evaluations'), nviol, known_hit, time.time() - t0))
    return exit_code
