#!/bin/bash
# run every claimed check once (quick tier) and summarise
cd /verif
for c in $(python3 -c "import json; print(' '.join(x['property_id'] for x in json.load(open('MANIFEST.json'))['checks']))"); do
  s=$(date +%s); out=$(timeout 1500 ./check $c 2>&1); rc=$?; e=$(date +%s)
  echo "$c rc=$rc $((e-s))s $(echo "$out" | grep -c VIOLATION) violations; $(echo "$out" | grep -o 'known findings \[[^]]*\]')"
done
