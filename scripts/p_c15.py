"""C15: every supported disk size yields a consistent, fully usable file system."""
import os, random, re
import vlib
from vlib import Failure

GEN_ITEMS = ['super']
TRUSTED = ['translator item: super/super.go -> Gen/GenSuper.v (uint64 arithmetic with explicit mod 2^64)',
           'hand model of nfs.markAlloc (Model/SuperModel.v mk_bit, markAlloc_sane) tied by this correspondence',
           'go-journal alloc.Alloc (dependency) is exercised, not modelled: fill runs allocate and free every data block']
ASSUMPTIONS = ['disk sizes below 2^64 blocks', 'sparse in-memory disk stands for a real disk of that size']


def sizes_for(ctx):
    if ctx.quick:
        s = set(range(1530, 1552))
        for k in (1, 2, 3):
            for d in range(-3, 4):
                s.add(32768 * k + d)
        rnd = random.Random(ctx.seed)
        for _ in range(12):
            s.add(rnd.randrange(1540, 140000))
        s |= {1, 2, 512, 513, 514, 1024, 4000, 10000}
        fill = [1541, 1542, 1560, 1700]
    else:
        s = set(range(1, 1539 + 3 * 32768 + 65))
        fill = [1541, 1560, 1700, 4000, 10000, 32767, 32768, 32769, 34310, 65535, 65536, 65537]
    s |= set(fill)
    return sorted(s), fill


def run(ctx, ps, gen_bad):
    sizes, fill = sizes_for(ctx)
    out = os.path.join(ctx.work, 'c15.txt')
    # consecutive sizes as a-b ranges (one argument may not exceed 128 KB)
    parts, i = [], 0
    while i < len(sizes):
        j = i
        while j + 1 < len(sizes) and sizes[j + 1] == sizes[j] + 1:
            j += 1
        parts.append(str(sizes[i]) if i == j else '%d-%d' % (sizes[i], sizes[j]))
        i = j + 1
    rc, o, e = vlib.harness(['c15', '-sizes', ','.join(parts), '-fill', ','.join(map(str, fill)), '-out', out], timeout=3000)
    fails = []
    if rc != 0:
        fails.append(Failure('C15', 'panic', 'harness', e[-500:]))
        return fails, {}
    rc, o, e = vlib.sh([os.path.join(vlib.BIN, 'drv'), 'c15', out] + (['full'] if ctx.quick else []), timeout=3000)
    nok = nbad = nacc = 0
    samples = []
    for line in o.splitlines():
        m = re.match(r'^Z (\d+) (OK|BAD)(.*)$', line)
        if m:
            if m.group(2) == 'OK':
                nok += 1
                if len(samples) < 4 and int(m.group(1)) > 1539:
                    samples.append(line)
            else:
                nbad += 1
                fails.append(Failure('C15', 'layout', 'size=%s' % m.group(1), m.group(3).strip()[:300],
                                     replay=dict(size=int(m.group(1)), how='h c15 -sizes %s ; drv c15' % m.group(1))))
        m = re.match(r'^DONE ok=(\d+) bad=(\d+) accepted=(\d+)', line)
        if m:
            nacc = int(m.group(3))
    if rc != 0 or nok + nbad == 0:
        fails.append(Failure('C15', 'tie', 'driver', (o + e)[-400:]))
    cov = dict(evaluations=nok + nbad, distinct_nontrivial=nacc,
               rule='one evaluation = MakeNfs on a fresh sparse disk of one size, compared field by field, bit by bit (bitmaps) and by '
                    'free counts with the generated layout + mkfs model; non-trivial = the size is accepted (formats). '
                    'Filled sizes additionally allocate every data block through WRITEs and free them all again.',
               samples=samples, sizes_filled=fill, exhaustive=not ctx.quick,
               search='dense size range evaluated on the regenerated GenSuper (layout_ok_b) and on the Go code')
    return fails, cov


def replay(ctx, path):
    import json
    r = json.load(open(path))
    sz = r.get('size')
    out = os.path.join(ctx.work, 'replay.txt')
    vlib.harness(['c15', '-sizes', str(sz), '-out', out])
    rc, o, e = vlib.sh([os.path.join(vlib.BIN, 'drv'), 'c15', out, 'full'])
    print(o)
    return 1 if 'BAD' in o else 0
