"""C08 — decided by theorems in coq/Props/C08.v plus the sequential correspondence engine (scripts/seqprops.py) and
concurrent histories in which a directory is removed and its number reused while another call re-takes its locks."""
import json
import seqprops, concengine
TRUSTED = ['hand-written AM (Model/Afs.v), abs_disk/wf_disk (Model/Abs.v), agreement relations (Model/Agree.v): run extracted on the implementation disk and replies',
           'go-journal obj.Log.Load as the reader of the logical disk']
ASSUMPTIONS = ['sequential client for the bulk; the concurrent part steers one interleaving family (a REMOVE between giving up and re-taking its locks while the directory is replaced)']


def run(ctx, ps, gen_bad):
    fails, cov = seqprops.run(ctx, 'C08', ps, gen_bad)
    # a dead directory handle used by a call that is between its two locking attempts: the directory is removed, a new one
    # gets its number, the child is moved back in under the same name - the call must still fail as stale
    f2, c2 = concengine.run(ctx, 'C08', [('staledir', 3, 6, 6 if ctx.quick else 150)], kinds={'lin', 'panic'})
    fails += f2
    cov['concurrent_histories_with_directory_number_reuse'] = c2['evaluations']
    cov['evaluations'] += c2['evaluations']
    return fails, cov


def replay(ctx, path):
    if 'shape' in json.load(open(path)):
        return concengine.replay(ctx, path)
    return seqprops.replay(ctx, path)
