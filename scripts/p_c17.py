"""C17 — SimpleNFS: refinement theorems + differential run of simple.Nfs against both extracted servers + crash images."""
import os, re
import vlib
from vlib import Failure
TRUSTED = ['hand transliteration of simple/inode.go and simple/ops.go (Model/SimpleModel.v i_*, istep), tied by this correspondence',
           'WalDisk.recover_log (model of go-journal recovery), validated per image']
ASSUMPTIONS = ['sequential client for the reply comparison; concurrency of simple is not exercised by this check']


def one(ctx, kind, seed, ncalls, budget, tag):
    trace = os.path.join(ctx.work, '%s_%s.trace' % (kind, tag))
    args = [kind, '-seed', str(seed), '-ncalls', str(ncalls), '-out', trace, '-budget', str(budget)]
    if kind == 'simple':
        args.append('-crash')
    rc, o, e = vlib.harness(args, timeout=900)
    rep = dict(kind=kind, seed=seed, ncalls=ncalls, budget=budget, how='h %s <flags> -out T ; drv %s T' % (kind, kind))
    fails = []
    if rc != 0:
        fails.append(Failure(ctx.prop, 'panic', kind + '-harness', (e or o)[-500:], replay=rep))
    rc2, o, e = vlib.sh('ulimit -s unlimited 2>/dev/null; ulimit -v 12000000; exec %s %s %s' % (os.path.join(vlib.BIN, 'drv'), kind, trace), timeout=900)
    st = {}
    for line in o.splitlines():
        m = re.match(r'^(Q|K) (\S+) (\S+) BAD (.*)$', line)
        if m:
            fails.append(Failure(ctx.prop, 'reply', m.group(3), m.group(4)[:300], replay=dict(rep, call=m.group(2))))
        m = re.match(r'^G (\d+|-) (\S+) BAD (.*)$', line)
        if m:
            fails.append(Failure(ctx.prop, 'crash', re.sub(r'\d+', 'N', m.group(3))[:60], m.group(3)[:300], replay=dict(rep, crash_point=(int(m.group(1)) if m.group(1).isdigit() else -1), pattern=m.group(2))))
        if line.startswith('DONE'):
            st = dict(t.split('=') for t in line.split()[1:])
    if rc2 != 0 or not st:
        fails.append(Failure(ctx.prop, 'tie', kind + '-driver', (o + e)[-400:], replay=rep))
    try:
        os.remove(trace)
    except OSError:
        pass
    return fails, st


def run_kind(ctx, kind, runs):
    fails, calls, mut, images, samples = [], 0, 0, 0, []
    for k, (ncalls, budget) in enumerate(runs):
        fs, st = one(ctx, kind, ctx.seed * 31 + k, ncalls, budget, str(k))
        seen = set()
        for f in fs:
            if (f.kind, f.where) in seen:
                continue
            seen.add((f.kind, f.where))
            fails.append(f)
        calls += int(st.get('calls', 0))
        mut += int(st.get('mutating', st.get('puts', 0)))
        images += int(st.get('images', 0))
        samples.append(dict(seed=ctx.seed * 31 + k, **st))
    cov = dict(evaluations=calls + images, distinct_nontrivial=mut + images,
               rule='one evaluation = one call compared with the extracted specification (and transliteration) or one crash image judged against the '
                    'specification states inside its acknowledgement window; non-trivial = successful mutating calls + crash images',
               samples=samples, calls=calls, crash_images=images, traces_validated_against_impl=len(runs))
    return fails, cov


def conc(ctx, nhist, clients, nops, mode='simpleconc'):
    """concurrent clients on one file of the simple server: a sequential order over the extracted specification must
       explain every history"""
    fails, ok, unknown = [], 0, 0
    for k in range(nhist):
        seed = ctx.seed * 1000 + k
        trace = os.path.join(ctx.work, mode + '.trace')
        rep = dict(kind=mode, seed=seed, clients=clients, nops=nops, how='h %s -seed S -clients C -nops N -out T ; drv %s T' % (mode, mode))
        rc, o, e = vlib.harness([mode, '-seed', str(seed), '-clients', str(clients), '-nops', str(nops), '-out', trace], timeout=300)
        if rc != 0:
            fails.append(Failure(ctx.prop, 'panic', mode + '-harness', (e or o)[-400:], replay=rep))
            continue
        rc2, o, e = vlib.sh('ulimit -s unlimited 2>/dev/null; exec %s %s %s' % (os.path.join(vlib.BIN, 'drv'), mode, trace), timeout=600)
        for line in o.splitlines():
            if line.startswith('N lin OK'):
                ok += 1
            elif line.startswith('N lin UNKNOWN'):
                unknown += 1
            elif line.startswith('N ') and ' BAD ' in line:
                fails.append(Failure(ctx.prop, 'lin', mode, line[2:300], replay=rep))
        if rc2 != 0:
            fails.append(Failure(ctx.prop, 'tie', mode + '-driver', (o + e)[-300:], replay=rep))
    seen, out = set(), []
    for f in fails:
        if (f.kind, f.where) not in seen:
            seen.add((f.kind, f.where))
            out.append(f)
    return out, dict(concurrent_histories=nhist, explained_by_a_sequential_order=ok, search_budget_exhausted=unknown)


def run(ctx, ps, gen_bad):
    runs = [(400, 250), (400, 150), (300, 150)] if ctx.quick else [(3000, 3000)] * 6
    fails, cov = run_kind(ctx, 'simple', runs)
    f2, c2 = conc(ctx, 30 if ctx.quick else 800, 5, 30)
    fails += f2
    cov.update(c2)
    cov['evaluations'] += c2['concurrent_histories']
    # what a reply showed must survive a crash right after it: GETATTRs polling a file while a WRITE extends it; a
    # reply with the new size during which the disk did not change is checked against the server recovered from
    # exactly that disk image
    nobs = 0
    for k in range(4 if ctx.quick else 100):
        seed = ctx.seed * 10 + k
        rep = dict(kind='simpledur', seed=seed, rounds=60, how='h simpledur -seed S -rounds 60')
        rc, o, e = vlib.harness(['simpledur', '-seed', str(seed), '-rounds', '60'], timeout=300)
        if rc != 0:
            fails.append(Failure(ctx.prop, 'panic', 'simpledur-harness', (e or o)[-400:], replay=rep))
            continue
        for line in o.splitlines():
            m = re.match(r'^U (\d+) BAD (.*)$', line)
            if m and not [f for f in fails if f.kind == 'durable']:
                fails.append(Failure(ctx.prop, 'durable', 'getattr', m.group(2)[:300], replay=dict(rep, event_prefix=int(m.group(1)))))
            m = re.match(r'^UD rounds=\d+ conclusive=(\d+)', line)
            if m:
                nobs += int(m.group(1))
    cov['replies_checked_against_the_crash_image_of_their_moment'] = nobs
    cov['evaluations'] += nobs
    return fails, cov


def replay(ctx, path):
    import json
    r = json.load(open(path))
    if r.get('kind') == 'simpledur':
        rc, o, e = vlib.harness(['simpledur', '-seed', str(r['seed']), '-rounds', str(r['rounds'])], timeout=300)
        print(o[-800:])
        return 1 if ' BAD ' in o or rc != 0 else 0
    if r.get('kind') in ('simpleconc', 'kvsconc'):
        mode = r['kind']
        trace = os.path.join(ctx.work, mode + '_replay.trace')
        vlib.harness([mode, '-seed', str(r['seed']), '-clients', str(r['clients']), '-nops', str(r['nops']), '-out', trace], timeout=300)
        rc2, o, e = vlib.sh('ulimit -s unlimited 2>/dev/null; exec %s %s %s' % (os.path.join(vlib.BIN, 'drv'), mode, trace), timeout=600)
        print(o[-600:])
        return 1 if ' BAD ' in o else 0
    fs, st = one(ctx, r['kind'], r['seed'], r['ncalls'], r['budget'], 'replay')
    for f in fs:
        print(f)
    print(st)
    return 1 if fs else 0
