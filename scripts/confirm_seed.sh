#!/bin/bash
# confirm_seed.sh <wtname> <seedid> <property> : confirm a seeded change in its scratch worktree and store it under /verif/seeded/<seedid>
export GOFLAGS=-mod=mod GOPROXY=off GOSUMDB=off GOTOOLCHAIN=local
W=/tmp/wt/$1; O=/tmp/wt/$1_out; S=/verif/seeded/$2
mkdir -p $S
cd $W || exit 2
git checkout -q -- . ; rm -f nfs/zz_demo_test.go simple/zz_demo_test.go kvs/zz_demo_test.go nfstypes/zz_demo_test.go dir/zz_demo_test.go
DEMO=$(ls $O/*_test.go | head -1); DPKG=$(grep -m1 '^package' $DEMO | awk '{print $2}'); 
case $DPKG in nfs) DDIR=nfs;; simple) DDIR=simple;; kvs) DDIR=kvs;; dir) DDIR=dir;; nfstypes) DDIR=nfstypes;; *) DDIR=nfs;; esac
TAGS=""; grep -q 'go:build verif' $DEMO && TAGS="-tags verif"; [ -n "$4" ] && TAGS="$TAGS $4"
git apply $O/patch.diff || { echo "patch does not apply"; exit 2; }
go build ./... > $S/build.log 2>&1; B=$?
go test -vet=off -count=1 ./... > $S/suite_with_change.log 2>&1; T=$?
cp $DEMO $DDIR/zz_demo_test.go
timeout 900 go test $TAGS -vet=off -count=1 -run 'TestDemo' ./$DDIR > $S/demo_with_change.log 2>&1; D1=$?
git checkout -q -- .
timeout 900 go test $TAGS -vet=off -count=1 -run 'TestDemo' ./$DDIR > $S/demo_without_change.log 2>&1; D0=$?
rm -f $DDIR/zz_demo_test.go
cp $O/patch.diff $S/patch.diff; cp $DEMO $S/; cp $O/README.md $S/README.md 2>/dev/null
echo "{\"build_rc\": $B, \"suite_with_change_rc\": $T, \"demo_with_change_rc\": $D1, \"demo_without_change_rc\": $D0}" > $S/confirm.json
cat $S/confirm.json
