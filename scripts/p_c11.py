"""C11 — no request can crash or wedge the server: totality theorems on the reference + hostile arguments under a watchdog."""
import seqprops
TRUSTED = ['watchdog: an RPC that does not return within 20 s, or aborts more than 2000 transactions, or panics, ends the sequence and is the replay']
ASSUMPTIONS = ['procedures are called directly (the XDR decoder side is C16); READ counts above 1 MiB are not generated (open finding F28)']


def run(ctx, ps, gen_bad):
    return seqprops.run(ctx, 'C11', ps, gen_bad)


def replay(ctx, path):
    return seqprops.replay(ctx, path)
