"""C16 — wire format and dispatch: generic codec theorem + generated descriptors (repo codec and RFC) + R-bytes."""
import os, re
import vlib
from vlib import Failure
GEN_ITEMS = ['xdr']
TRUSTED = ['translator item xdr: nfstypes/nfs_xdr.go Xdr methods, registration tables, wrappers, main.go RegisterMany -> Gen/GenXdr.v',
           'scripts/xparse.py: prot.x of the go-rpcgen module (RFC 1813 + MOUNT) -> Gen/GenRfc.v',
           'the xdr runtime primitives of go-rpcgen (dependency) are modelled by Model/Xdr.v and tied by the byte comparison',
           'enumerations are 32-bit words in both descriptor sets; their value sets are listed in GenRfc.rfc_enums but not enforced (leniency class iii)']
ASSUMPTIONS = ['types conformance and dispatch conformance are finite computations on closed terms (vm_compute), stated as such']


def run(ctx, ps, gen_bad):
    n = 12 if ctx.quick else 400
    if ps and ps.get('broken'):
        # a conformance obligation no longer holds: search harder for a concrete value / byte string
        n = max(n, 120)
    trace = os.path.join(ctx.work, 'xdr.trace')
    rc, o, e = vlib.harness(['xdr', '-seed', str(ctx.seed), '-n', str(n), '-out', trace], timeout=1800)
    fails = []
    rep = dict(seed=ctx.seed, n=n, how='h xdr -seed S -n N -out T ; drv xdr T')
    if rc != 0:
        fails.append(Failure('C16', 'panic', 'xdr-harness', (e or o)[-500:], replay=rep))
    rc2, o, e = vlib.sh('ulimit -s unlimited 2>/dev/null; exec %s xdr %s' % (os.path.join(vlib.BIN, 'drv'), trace), timeout=1800)
    st = {}
    seen = set()
    for line in o.splitlines():
        m = re.match(r'^([XY]) (\S+) BAD (\S+)', line)
        if m:
            what = m.group(3)
            key = (m.group(2), what.split(':')[0])
            if key in seen:
                continue
            seen.add(key)
            fails.append(Failure('C16', 'xdr', m.group(2), what[:400], replay=dict(rep, type=m.group(2), bytes=what.split(':')[1] if ':' in what else '')))
        if line.startswith('DONE'):
            st = dict(t.split('=') for t in line.split()[1:])
    if rc2 != 0 or not st:
        fails.append(Failure('C16', 'tie', 'xdr-driver', (o + e)[-400:], replay=rep))
    # truncated argument bytes through the registered handler wrappers (judged by the harness itself: a proper prefix
    # of a valid argument encoding must come back as a decode error, never reach the procedure)
    wcuts = 0
    try:
        for line in open(trace):
            if line.startswith('W ') and ' BAD ' in line:
                t = line.split()
                if not [f for f in fails if f.where == 'wrapper ' + t[1]]:
                    fails.append(Failure('C16', 'xdr', 'wrapper ' + t[1], ' '.join(t[3:])[:300], replay=dict(rep, procedure=t[1])))
            elif line.startswith('WD '):
                wcuts = int(line.split()[2].split('=')[1])
    except OSError:
        pass
    if wcuts == 0:
        fails.append(Failure('C16', 'tie', 'xdr-wrappers', 'the wrapper pass did not run', replay=rep))
    if ps and ps.get('broken'):
        # name the RFC types / procedures on which the conformance obligations fail (computed by Coq itself)
        wf = os.path.join(ctx.work, 'Witness.v')
        open(wf, 'w').write(
            'From Coq Require Import List String NArith.\nFrom V Require Import Model.Xdr Model.XdrConform Gen.GenXdr Gen.GenRfc.\nImport ListNotations.\n'
            'Definition W1 := Eval vm_compute in (nonconforming gen_env rfc_env).\nPrint W1.\n'
            'Definition W2 := Eval vm_compute in (map (fun r => let \'(p, v, n, nm, _, _) := r in (p, v, n, nm)) (filter (fun r => negb (match filter (fun g => same_slot g r) gen_procs with [g] => proc_ok g r | _ => false end)) rfc_procs)).\nPrint W2.\n'
            'Definition W3 := Eval vm_compute in (map (fun g => let \'(p, v, n, w, _, _, _) := g in (p, v, n, w)) (filter (fun g => negb (existsb (fun r => same_slot g r) rfc_procs)) gen_procs)).\nPrint W3.\n')
        rcw, ow, ew = vlib.sh(['coqc', '-Q', os.path.join(vlib.V, 'coq'), 'V', wf], cwd=ctx.work, timeout=600)
        txt = re.sub(r'\s+', ' ', ow)
        for nm, what in (('W1', 'type-layout-differs-from-RFC'), ('W2', 'RFC-procedure-not-dispatched-as-specified'), ('W3', 'registered-procedure-not-in-RFC')):
            m = re.search(nm + r' = \[(.*?)\] *:', txt)
            if m and m.group(1).strip():
                items = m.group(1).strip()
                fails.append(Failure('C16', 'xdr', nm, '%s: %s' % (what, items[:300]), replay=dict(rep, witness=items[:2000], how='coqc Witness.v: ' + what)))
    samples = []
    try:
        for i, line in enumerate(open(trace)):
            if line.startswith('X ') and len(samples) < 3 and len(line) < 400:
                samples.append(line.strip())
        os.remove(trace)
    except OSError:
        pass
    cov = dict(evaluations=int(st.get('values', 0)) + int(st.get('malformed', 0)), distinct_nontrivial=int(st.get('values', 0)),
               rule='values: random values of 67 codec types (every NFS argument/result type, MOUNT types, unions with every small discriminant, optional/list shapes, '
                    'opaque lengths 0,1,3,4,5,16,63,64) encoded by the Go codec, decoded and re-encoded by the extracted generic codec under the generated and the RFC descriptors '
                    'and by the independent rfc1813 package; malformed: truncations, bit flips and inflated length words, accept/reject and decoded value must agree; '
                    'non-trivial = well-formed values',
               samples=samples, malformed=int(st.get('malformed', 0)), malformed_accepted_by_both=int(st.get('accepted', 0)),
               malformed_rejected_by_both=int(st.get('rejected', 0)), programs=67, disagreements_checked=int(st.get('bad', 0)),
               truncated_argument_prefixes_through_registered_wrappers=wcuts)
    cov['evaluations'] += wcuts
    return fails, cov


def replay(ctx, path):
    import json
    r = json.load(open(path))
    ctx.seed = r.get('seed', 1)
    fs, cov = run(ctx, None, None)
    for f in fs:
        print(f)
    return 1 if fs else 0
