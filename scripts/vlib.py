"""Shared machinery of the checks: build steps, harness/driver invocation,
failure classification, known findings, shrinking, evidence."""
import fcntl, hashlib, json, os, re, shutil, subprocess, sys, time

V = os.path.dirname(os.path.dirname(os.path.abspath(__file__)))   # /verif, or a snapshot of it (vp run)
WORK = os.path.join(V, '.work')
BIN = os.path.join(WORK, 'bin')
REPO = os.environ.get('VERIF_REPO', '/repo')   # the registered checks always use /repo itself; a background sweep may point at a snapshot
GOENV = dict(os.environ, GOFLAGS='-mod=mod', GOPROXY='off', GOSUMDB='off', GOTOOLCHAIN='local')


def sh(cmd, timeout=1200, cwd=None, env=None, inp=None):
    """run, return (rc, stdout, stderr); rc -9 on timeout"""
    try:
        p = subprocess.run(cmd, shell=isinstance(cmd, str), cwd=cwd, env=env or GOENV, input=inp,
                           capture_output=True, text=True, timeout=timeout)
        return p.returncode, p.stdout, p.stderr
    except subprocess.TimeoutExpired as e:
        return -9, (e.stdout or b'').decode() if isinstance(e.stdout, bytes) else (e.stdout or ''), 'TIMEOUT'


class Lock:
    def __enter__(self):
        os.makedirs(WORK, exist_ok=True)
        self.f = open(os.path.join(WORK, 'lock'), 'w')
        fcntl.flock(self.f, fcntl.LOCK_EX)
        return self

    def __exit__(self, *a):
        fcntl.flock(self.f, fcntl.LOCK_UN)
        self.f.close()


# ---------------------------------------------------------------------------
# build: translator -> Gen/*.v -> coq (incremental) -> extraction -> drivers -> harness

def write_if_changed(path, text):
    old = None
    if os.path.exists(path):
        old = open(path).read()
    if old != text:
        os.makedirs(os.path.dirname(path), exist_ok=True)
        with open(path, 'w') as f:
            f.write(text)
        return True
    return False


def run_translator():
    """Regenerate coq/Gen from /repo's working tree.  Returns the report dict:
       {'items': {name: {'ok': bool, 'msg': str}}, 'changed': [files]}"""
    tr = os.path.join(BIN, 'translator')
    src = os.path.join(V, 'translator')
    newest = max(os.path.getmtime(os.path.join(src, f)) for f in os.listdir(src))
    if not os.path.exists(tr) or os.path.getmtime(tr) < newest:
        shutil.copy(os.path.join(REPO, 'go.sum'), os.path.join(src, 'go.sum'))
        rc, o, e = sh(['go', 'build', '-o', tr, '.'], cwd=src, timeout=600)
        if rc != 0:
            raise RuntimeError('translator build failed: ' + e)
    out = os.path.join(WORK, 'gen')
    shutil.rmtree(out, ignore_errors=True)
    os.makedirs(out)
    rc, o, e = sh([tr, REPO, out], timeout=300)
    rep = {'items': {}, 'changed': [], 'rc': rc, 'stderr': e[-2000:]}
    rp = os.path.join(out, 'gen_report.json')
    if os.path.exists(rp):
        rep['items'] = json.load(open(rp))
    # the RFC side: descriptors from the .x specification shipped with the go-rpcgen module
    rc2, mo, me = sh("go list -m -f '{{.Dir}}' github.com/zeldovich/go-rpcgen", cwd=REPO, timeout=120)
    xfile = os.path.join(mo.strip(), 'rfc1813', 'prot.x')
    rc3, xo, xe = sh(['python3', os.path.join(V, 'scripts', 'xparse.py'), xfile, os.path.join(out, 'GenRfc.v')], timeout=120)
    rep['items']['rfc'] = {'ok': rc3 == 0, 'msg': (xe or '')[-300:]}
    for f in sorted(os.listdir(out)):
        if f.endswith('.v'):
            if write_if_changed(os.path.join(V, 'coq', 'Gen', f), open(os.path.join(out, f)).read()):
                rep['changed'].append(f)
    return rep


def coq_make(targets=None, timeout=3000):
    """incremental make; returns (ok, [(file, errtext)])"""
    cq = os.path.join(V, 'coq')
    if not os.path.exists(os.path.join(cq, 'Makefile')) or \
            os.path.getmtime(os.path.join(cq, 'Makefile')) < os.path.getmtime(os.path.join(cq, '_CoqProject')):
        sh('coq_makefile -f _CoqProject -o Makefile', cwd=cq)
    cmd = ['make', '-k', '-j16'] + (targets or [])
    rc, o, e = sh(cmd, cwd=cq, timeout=timeout)
    errs = []
    if rc != 0:
        # collect "File "./X.v", line ..." blocks
        txt = o + '\n' + e
        for m in re.finditer(r'File "\./([^"]+)", line (\d+)[^\n]*\n((?:(?!File "|make).*\n){0,12})', txt):
            errs.append((m.group(1), 'line %s: %s' % (m.group(2), m.group(3).strip()[:600])))
        if not errs:
            errs.append(('?', txt[-1500:]))
    return rc == 0, errs


def build_ocaml():
    rc, o, e = sh([os.path.join(V, 'scripts', 'build.sh'), 'ocaml'], timeout=1200)
    if rc != 0:
        raise RuntimeError('ocaml build failed: ' + o + e)


def build_harness():
    rc, o, e = sh([os.path.join(V, 'scripts', 'build.sh'), 'go'], timeout=1200)
    return rc == 0, (o + e)[-3000:]


_prepared = None


def prepare(need_harness=True):
    """Everything a check needs, rebuilt from /repo's working tree.
       Returns dict(gen=report, coq_ok, coq_errs, harness_ok, harness_err)."""
    global _prepared
    if _prepared is not None:
        return _prepared
    with Lock():
        res = {}
        res['gen'] = run_translator()
        ok, errs = coq_make()
        res['coq_ok'], res['coq_errs'] = ok, errs
        try:
            build_ocaml()
            res['ocaml_ok'] = True
        except RuntimeError as ex:
            res['ocaml_ok'] = False
            res['ocaml_err'] = str(ex)
        if need_harness:
            res['harness_ok'], res['harness_err'] = build_harness()
    _prepared = res
    return res


# ---------------------------------------------------------------------------
# known findings

def load_findings():
    p = os.path.join(V, 'known_findings.json')
    if not os.path.exists(p):
        return []
    return json.load(open(p)).get('findings', [])


class Failure:
    """one failing observation: kind in reply|abs|wf|alloc|panic|proof|tie|trace|crash|race|..."""

    def __init__(self, prop, kind, where, detail, replay=None, seq=None, step=None):
        self.prop, self.kind, self.where, self.detail = prop, kind, where, detail
        self.replay = replay or {}
        self.seq, self.step = seq, step

    def sig(self):
        return '%s/%s/%s' % (self.kind, self.where, self.detail)

    def __repr__(self):
        return 'Failure(%s %s %s %s)' % (self.prop, self.kind, self.where, self.detail[:200])


def match_finding(f, findings):
    """a finding entry: {id, property, status: open|fixed, kind, where(regex), detail(regex), what}"""
    for k in findings:
        if k.get('status') != 'open':
            continue
        props = k.get('properties') or [k.get('property')]
        if f.prop not in props:
            continue
        pats = k.get('patterns') or [k]
        for pt in pats:
            if pt.get('kind') and pt['kind'] != f.kind:
                continue
            if pt.get('where') and not re.search(pt['where'], f.where or ''):
                continue
            if pt.get('detail') and not re.search(pt['detail'], f.detail or ''):
                continue
            return k
    return None


# ---------------------------------------------------------------------------
# harness + driver

def harness(args, timeout=1200):
    rc, o, e = sh([os.path.join(BIN, 'h')] + args, timeout=timeout)
    return rc, o, e


def run_seq(outdir, seed, nseq, nops, size=4000, profile='generic', par=8, extra=None):
    shutil.rmtree(outdir, ignore_errors=True)
    os.makedirs(outdir)
    # (every RPC runs under the harness's own 20 s watchdog; this limit only guards against a stuck harness and grows
    # with the amount of work, so that a loaded machine does not turn a large thorough workload into an alarm)
    rc, o, e = harness(['seq', '-seed', str(seed), '-nseq', str(nseq), '-nops', str(nops), '-size', str(size),
                        '-profile', profile, '-out', outdir, '-par', str(par)] + (extra or []),
                       timeout=max(1800, nseq * nops // 8))
    res = []
    try:
        res = json.loads(o)
    except Exception:
        pass
    return rc, res, e


def run_replay(opsfile, trace, size=4000, unstable=True):
    rc, o, e = harness(['replay', '-ops', opsfile, '-size', str(size), '-out', trace,
                        '-unstable=%s' % ('true' if unstable else 'false')])
    res = []
    try:
        res = json.loads(o)
    except Exception:
        pass
    return rc, res, e


STEP_RE = re.compile(r'^S (\S*) (\S*) (?:PANIC|REPLY=(\d) NABS=(\d+) NWF=(\d+) ALLOC=(\d))(.*)$')


def run_drv(trace, noabs=False, timeout=240):
    """returns list of step dicts and the DONE dict.  A disk whose index blocks point into other objects' data can make
       the abstraction walk very large: the driver runs under a time and a memory limit, and a trace it cannot judge
       within them counts as a failing step (reported with the operations as replay), never as a pass."""
    rc, o, e = sh('ulimit -s unlimited 2>/dev/null || ulimit -s 4000000; ulimit -v 6000000; exec %s seq %s %s' % (os.path.join(BIN, 'drv'), trace, 'noabs' if noabs else ''), timeout=timeout)
    steps, done = [], {}
    for line in o.splitlines():
        m = STEP_RE.match(line)
        if m:
            if 'PANIC' in line and m.group(3) is None:
                steps.append(dict(id=m.group(1), proc=m.group(2), panic=True, reply=1, nabs=0, nwf=0, alloc=1, detail=''))
            else:
                steps.append(dict(id=m.group(1), proc=m.group(2), panic=False, reply=int(m.group(3)), nabs=int(m.group(4)),
                                  nwf=int(m.group(5)), alloc=int(m.group(6)), detail=m.group(7).strip(),
                                  trace=0 if ' trace=' in m.group(7) else 1))
        elif line.startswith('DONE'):
            for t in line.split()[1:]:
                k, _, v = t.partition('=')
                done[k] = v
    if rc != 0:
        steps.append(dict(id='?', proc='driver', panic=False, reply=0, nabs=0, nwf=0, alloc=1,
                          detail='driver failed rc=%d %s' % (rc, e[-300:])))
    return steps, done


def first_failure(steps):
    """index of the first step that fails any relation, else None"""
    for i, s in enumerate(steps):
        if s['panic'] or not s['reply'] or s['nabs'] or s['nwf'] or not s['alloc'] or not s.get('trace', 1):
            return i
    return None


def classify(step):
    """(kind, detail) of a failing step"""
    if step['panic']:
        return 'panic', step['detail']
    d = step['detail']
    if not step['reply']:
        m = re.search(r'twin=(\S+)', d)
        if m:
            return 'twin', m.group(1)[:300]
        if 'pagemodel=differs' in d and 'expected=' not in d:
            return 'reply', 'pagemodel=differs'
        m = re.search(r'expected=(\S+) observed_code=(\d+)( short-read got=\d+ want=\d+ prefix=1 free=\d+ nospace=\d| data-differs at=\d+| long-read)?( name=illformed)?', d)
        return 'reply', (m.group(0) if m else d)
    if step['nwf']:
        m = re.search(r'wf=(\S+)', d)
        return 'wf', (m.group(1) if m else d)
    if step['nabs']:
        m = re.search(r'abs=(\S+)', d)
        return 'abs', (m.group(1) if m else d)
    if not step['alloc'] or not re.search(r' ?trace=', d):
        pass
    if step['alloc'] and not step.get('trace', 1):
        m = re.search(r'trace=(\S+)', d)
        return 'trace', (m.group(1) if m else d)
    m = re.search(r'alloc=(\S+)', d)
    if m and m.group(1).startswith('cache:'):
        return 'cache', m.group(1)
    return 'alloc', (m.group(1) if m else d)


def classify_all(step):
    """every relation that fails at this step, as [(kind, detail)], the first being classify(step)"""
    out = [classify(step)]
    if step['panic']:
        return out
    d = step['detail']
    def add(k, x):
        if k not in [a for a, _ in out]:
            out.append((k, x))
    if step['nwf']:
        m = re.search(r'wf=(\S+)', d)
        add('wf', m.group(1) if m else d)
    if step['nabs']:
        m = re.search(r'abs=(\S+)', d)
        add('abs', m.group(1) if m else d)
    if not step.get('trace', 1):
        m = re.search(r'trace=(\S+)', d)
        add('trace', m.group(1) if m else d)
    if not step['alloc']:
        m = re.search(r'alloc=(\S+)', d)
        if m and m.group(1).startswith('cache:'):
            add('cache', m.group(1))
        else:
            add('alloc', m.group(1) if m else d)
    return out


def read_ops(path):
    hdr, ops = {}, []
    for line in open(path):
        line = line.rstrip('\n')
        if line.startswith('#'):
            t = line[1:].split()
            for i in range(0, len(t) - 1, 2):
                hdr[t[i]] = t[i + 1]
        elif line.strip():
            ops.append(line)
    return hdr, ops


def write_ops(path, hdr, ops):
    with open(path, 'w') as f:
        f.write('# ' + ' '.join('%s %s' % kv for kv in hdr.items()) + '\n')
        for o in ops:
            f.write(o + '\n')


def _rm_judge():
    import shutil
    shutil.rmtree(os.path.join(WORK, 'judge_%d' % os.getpid()), ignore_errors=True)


import atexit
atexit.register(_rm_judge)


def judge_ops(hdr, ops, tag, noabs=False):
    """run an op list on the implementation and the model; returns (steps, done, seqres)"""
    d = os.path.join(WORK, 'judge_%d' % os.getpid())   # per process: checks may run side by side
    os.makedirs(d, exist_ok=True)
    opsf = os.path.join(d, tag + '.ops')
    tr = os.path.join(d, tag + '.trace')
    write_ops(opsf, hdr, ops)
    rc, res, e = run_replay(opsf, tr, size=int(hdr.get('size', 4000)), unstable=hdr.get('unstable', '1') == '1')
    steps, done = run_drv(tr, noabs=noabs)
    if rc != 0 and not any(s['panic'] for s in steps):
        steps.append(dict(id='?', proc='harness', panic=True, reply=1, nabs=0, nwf=0, alloc=1, detail='harness died rc=%d %s' % (rc, e[-400:])))
    try:
        os.remove(tr)
    except OSError:
        pass
    return steps, done, (res[0] if res else {})


SHRINK_T0 = [None]     # wall-clock budget of all minimisation of one check run (a failing input is reported unshrunk
SHRINK_TOTAL = 300     # rather than not at all: the check must end within its time limit)


def shrink(hdr, ops, pred, budget=40, seconds=100):
    """delta-debug the op list while pred(steps) holds"""
    import time as _t
    if SHRINK_T0[0] is None:
        SHRINK_T0[0] = _t.time()
    t_end = min(_t.time() + seconds, SHRINK_T0[0] + SHRINK_TOTAL)
    n = 2
    cur = list(ops)
    runs = 0
    while len(cur) >= 2 and runs < budget and _t.time() < t_end:
        chunk = max(1, len(cur) // n)
        reduced = False
        for i in range(0, len(cur), chunk):
            cand = cur[:i] + cur[i + chunk:]
            if not cand:
                continue
            runs += 1
            steps, _, _ = judge_ops(hdr, cand, 'shrink')
            if pred(steps):
                cur = cand
                n = max(n - 1, 2)
                reduced = True
                break
            if runs >= budget or _t.time() >= t_end:
                break
        if not reduced:
            if chunk == 1:
                break
            n = min(n * 2, len(cur))
    return cur


# ---------------------------------------------------------------------------
# reporting

def ensure_dirs():
    for d in ('evidence', 'replays'):
        os.makedirs(os.path.join(V, d), exist_ok=True)


def write_replay(prop, name, obj):
    ensure_dirs()
    p = os.path.join(V, 'replays', '%s_%s.json' % (prop, name))
    with open(p, 'w') as f:
        json.dump(obj, f, indent=1)
    return p


def write_evidence(prop, tier, seed, level, coverage, wall, violations, assumptions):
    ensure_dirs()
    ev = dict(property_id=prop, tier=tier, seed=seed, level=level, coverage=coverage,
              assumptions=assumptions, wall_s=round(wall, 2), violations=violations)
    with open(os.path.join(V, 'evidence', prop + '.json'), 'w') as f:
        json.dump(ev, f, indent=1)


def print_assumptions_of(vfile):
    """'Closed under the global context' / axioms lines printed by Print Assumptions while compiling vfile"""
    cq = os.path.join(V, 'coq')
    vo = vfile[:-2] + '.vo'
    rc, o, e = sh(['coqc', '-Q', '.', 'V', vfile], cwd=cq, timeout=600)
    return rc, o + e


def theorem_names(vfile):
    txt = open(os.path.join(V, 'coq', vfile)).read()
    return re.findall(r'^(?:Theorem|Lemma|Corollary)\s+([A-Za-z0-9_\']+)', txt, re.M)
