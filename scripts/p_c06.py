"""C06 — no deadlock/livelock: lock-table theorem + acquisition order of every transaction of generated runs."""
import seqprops
TRUSTED = ['verif hooks in fstxn.LockInode/ReleaseInode/AllocInode/commitWait/Abort report the events (observer calls, tag-guarded)',
           'freshly allocated inode numbers are exempt from the order: the allocating transaction owns the number exclusively and '
           'takes that lock last; everybody else who can touch it holds no other lock meanwhile (stale-handle probe, shrinker of the previous incarnation)']
ASSUMPTIONS = ['the theorem quantifies over all schedules of the lock-table model; the Go code is tied to it through the per-transaction acquisition order, observed on single-threaded runs',
               'a request is reported as livelocked when it aborts more than 2000 transactions or does not return within 20 s']


def run(ctx, ps, gen_bad):
    fails, cov = seqprops.run(ctx, 'C06', ps, gen_bad)
    # a RENAME onto an existing target held between giving up and re-taking its locks while the target is removed: its
    # second locking attempt fails half-way and must leave no lock behind (the call and everybody after it must return)
    import concengine
    f2, c2 = concengine.run(ctx, 'C06', [('renamegone', 3, 6, 5 if ctx.quick else 120)], kinds={'panic', 'trace', 'lin'})
    fails += f2
    cov['concurrent_histories_with_a_failing_relock'] = c2['evaluations']
    cov['evaluations'] += c2['evaluations']
    return fails, cov


def replay(ctx, path):
    import json
    if 'shape' in json.load(open(path)):
        import concengine
        return concengine.replay(ctx, path)
    return seqprops.replay(ctx, path)
