"""C06 — no deadlock/livelock: lock-table theorem + acquisition order of every transaction of generated runs."""
import seqprops
TRUSTED = ['verif hooks in fstxn.LockInode/ReleaseInode/AllocInode/commitWait/Abort report the events (observer calls, tag-guarded)',
           'freshly allocated inode numbers are exempt from the order: the allocating transaction owns the number exclusively and '
           'takes that lock last; everybody else who can touch it holds no other lock meanwhile (stale-handle probe, shrinker of the previous incarnation)']
ASSUMPTIONS = ['the theorem quantifies over all schedules of the lock-table model; the Go code is tied to it through the per-transaction acquisition order, observed on single-threaded runs',
               'a request is reported as livelocked when it aborts more than 2000 transactions or does not return within 20 s']


def run(ctx, ps, gen_bad):
    return seqprops.run(ctx, 'C06', ps, gen_bad)


def replay(ctx, path):
    return seqprops.replay(ctx, path)
