#!/usr/bin/env python3
"""tryops.py <file.ops> : run an op file on the implementation and the model, print the verdict per step"""
import sys, os
sys.path.insert(0, os.path.dirname(os.path.abspath(__file__)))
import vlib
vlib.prepare()
hdr, ops = vlib.read_ops(sys.argv[1])
steps, done, res = vlib.judge_ops(hdr, ops, 'try')
bad = 0
for s in steps:
    fail = s['panic'] or not s['reply'] or s['nabs'] or s['nwf'] or not s['alloc']
    if fail or '-v' in sys.argv:
        print('S', s['id'], s['proc'], 'PANIC ' + s['detail'] if s['panic'] else 'REPLY=%d NABS=%d NWF=%d ALLOC=%d %s' % (s['reply'], s['nabs'], s['nwf'], s['alloc'], s['detail']))
    bad += 1 if fail else 0
print('steps', len(steps), 'failing', bad, done)
if res.get('panic'): print(res['panic'][:1500])
