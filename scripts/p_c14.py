"""C14 — no data races: lockset theorem + Go race detector on the concurrent workloads."""
import os
import vlib, concengine
from vlib import Failure
TRUSTED = ['Go race detector (dynamic happens-before analysis of the schedules that occur)']
ASSUMPTIONS = ['the -race build of the harness is rebuilt from /repo on every run']


def run(ctx, ps, gen_bad):
    src = os.path.join(vlib.V, 'harness')
    rc, o, e = vlib.sh(['go', 'build', '-race', '-tags', 'verif', '-o', os.path.join(vlib.BIN, 'h_race'), '.'], cwd=src, timeout=900)
    if rc != 0:
        return [Failure('C14', 'tie', 'race-build', (o + e)[-500:])], {}
    if ctx.quick:
        plan = [('data', 3, 8, 4), ('names', 3, 8, 4), ('xrename', 3, 8, 2), ('lsrace', 2, 600, 2), ('crashshrink', 1, 3, 2)]
    else:
        plan = [('data', 4, 10, 120), ('names', 4, 10, 120), ('xrename', 4, 10, 80), ('lsrace', 2, 1500, 20), ('crashshrink', 1, 4, 30)]
    fails, cov = concengine.run(ctx, 'C14', plan, binary='h_race', kinds={'race', 'tie'})
    cov['rule'] = 'one evaluation = one concurrent history run under the Go race detector (GORACE halt_on_error=0); any DATA RACE report is a violation'
    return fails, cov


def replay(ctx, path):
    return concengine.replay(ctx, path)
