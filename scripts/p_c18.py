"""C18 — KVS: KM laws + journal theorems + differential run of kvs.KVS against extracted KM + crash images."""
import p_c17
TRUSTED = ['KM (Model/KvsModel.v) as the statement of the store; WalDisk.recover_log validated per image']
ASSUMPTIONS = ['sequential caller; concurrent multi-puts are not exercised by this check']


def run(ctx, ps, gen_bad):
    runs = [(150, 250), (150, 200), (120, 150)] if ctx.quick else [(1500, 4000)] * 6
    return p_c17.run_kind(ctx, 'kvs', runs)


def replay(ctx, path):
    return p_c17.replay(ctx, path)
