"""C18 — KVS: KM laws + journal theorems + differential run of kvs.KVS against extracted KM + crash images."""
import p_c17
TRUSTED = ['KM (Model/KvsModel.v) as the statement of the store; WalDisk.recover_log validated per image']
ASSUMPTIONS = ['concurrent histories are sampled (Go schedules are not enumerated); values are compared on their first 8 bytes there']


def run(ctx, ps, gen_bad):
    runs = [(150, 250), (150, 200), (120, 150)] if ctx.quick else [(1500, 4000)] * 6
    fails, cov = p_c17.run_kind(ctx, 'kvs', runs)
    # concurrent multi-puts on overlapping key sets and gets: a sequential order over the model must explain each history
    f2, c2 = p_c17.conc(ctx, 90 if ctx.quick else 2500, 6, 40, mode='kvsconc')
    fails += f2
    cov.update(c2)
    cov['evaluations'] += c2['concurrent_histories']
    return fails, cov


def replay(ctx, path):
    return p_c17.replay(ctx, path)
