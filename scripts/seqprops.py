"""Property checks that are decided by theorems about AM/ABS plus the sequential
correspondence engine.  Each entry: the workloads (profile, nseq, nops, disk size)
per tier and the failure kinds that belong to the property."""
import os, re, json
import vlib, seqengine
from vlib import Failure

WORKLOADS = {
    'C02': dict(quick=[('generic', 14, 60, 4000), ('names', 10, 60, 4000), ('bigfile', 8, 40, 6000), ('fail', 6, 70, 1600), ('inodefull', 1, 1, 12000)],
                thorough=[('generic', 300, 300, 4000), ('names', 200, 300, 4000), ('bigfile', 100, 150, 12000), ('generic', 100, 200, 40000), ('fail', 100, 200, 1600), ('inodefull', 2, 1, 12000)]),
    'C04': dict(quick=[('names', 8, 60, 4000), ('recycle', 6, 50, 4000), ('generic', 6, 50, 2200), ('fail', 8, 70, 1600), ('longnames', 5, 130, 4000)],
                thorough=[('names', 200, 300, 4000), ('recycle', 150, 200, 4000), ('generic', 150, 300, 2200), ('bigfile', 60, 150, 12000), ('longnames', 60, 200, 4000)]),
    'C05': dict(quick=[('reclaim', 12, 60, 4000), ('reclaim', 6, 40, 9000), ('fail', 6, 70, 1600)],
                thorough=[('reclaim', 250, 200, 4000), ('reclaim', 60, 120, 9000), ('names', 100, 200, 2200), ('fail', 100, 200, 1600)]),
    'C06': dict(quick=[('lockorder', 16, 80, 4000), ('names', 6, 60, 4000)], thorough=[('lockorder', 400, 300, 4000), ('names', 100, 300, 4000), ('stale', 100, 300, 4000)]),
    'C13': dict(quick=[('paging', 3, 1, 4000)], thorough=[('paging', 24, 1, 4000)]),
    'C19': dict(quick=[('limits', 1, 1, 30000), ('limits', 1, 1, 70000)], thorough=[('limits', 3, 1, 30000), ('limits', 2, 1, 70000), ('limits', 1, 1, 140000)]),
    'C08': dict(quick=[('stale', 16, 70, 4000)], thorough=[('stale', 300, 300, 4000), ('names', 100, 300, 4000)]),
    'C09': dict(quick=[('fail', 8, 60, 1600), ('fail', 6, 60, 1570), ('fail', 4, 50, 2100), ('toobig', 4, 40, 6000)],
                thorough=[('fail', 150, 200, 1600), ('fail', 100, 200, 1570), ('fail', 100, 200, 2100), ('fail', 60, 200, 1545), ('toobig', 60, 100, 6000)]),
    'C10': dict(quick=[('twin', 10, 60, 4000), ('manyobj', 3, 220, 6000), ('fail', 8, 70, 1600), ('longnames', 4, 130, 4000), ('lockorder', 6, 80, 4000), ('inodefull', 1, 1, 12000)], thorough=[('lockorder', 100, 300, 4000), ('twin', 200, 200, 4000), ('manyobj', 30, 400, 6000), ('fail', 60, 120, 1600), ('longnames', 60, 200, 4000), ('inodefull', 2, 1, 12000)]),
    'C11': dict(quick=[('hostile', 16, 150, 4000), ('hostile', 6, 150, 1600), ('lockorder', 4, 80, 4000)], thorough=[('hostile', 200, 400, 4000), ('hostile', 60, 400, 1600), ('hostile', 30, 300, 40000), ('lockorder', 60, 200, 4000)]),
    'C12': dict(quick=[('recycle', 16, 60, 4000), ('recycle', 6, 60, 1700), ('fail', 8, 70, 1600)],
                thorough=[('recycle', 300, 250, 4000), ('recycle', 150, 250, 1700), ('bigfile', 80, 150, 12000), ('fail', 150, 200, 1600)]),
}


def run(ctx, prop, ps, gen_bad):
    fails, cov = [], {}
    tot = dict(sequences=0, steps=0, cut=0, hist={}, nontrivial=0, foreign=[], unreproduced=[])
    samples = []
    # corpus first
    for name, hdr, ops in seqengine.load_corpus(prop):
        steps, done, _ = vlib.judge_ops(hdr, ops, 'corpus')
        tot['steps'] += len(steps)
        # the first step that breaks a relation this property owns (or that panics)
        for st_ in steps:
            own = [(k_, d_) for k_, d_ in vlib.classify_all(st_) if k_ in seqengine.KINDS[prop] or k_ == 'panic'] \
                if (st_['panic'] or not st_['reply'] or st_['nabs'] or st_['nwf'] or not st_['alloc'] or not st_.get('trace', 1)) else []
            if own:
                fails.append(Failure(prop, own[0][0], st_['proc'], own[0][1], replay=dict(header=hdr, ops=ops, corpus=name)))
                break
    # probes of the open findings: each recorded defect is shown again on every run (KNOWN-FINDING); a probe whose
    # defect has gone only leaves a note in the evidence
    pdir = os.path.join(vlib.V, 'probes')
    gone = []
    for fn in sorted(os.listdir(pdir)) if os.path.isdir(pdir) else []:
        if not fn.endswith('.ops'):
            continue
        hdr, ops = vlib.read_ops(os.path.join(pdir, fn))
        if prop not in hdr.get('props', '').split(','):
            continue
        steps, done, res = vlib.judge_ops(hdr, ops, 'probe')
        tot['steps'] += len(steps)
        shown = False
        for st_ in steps:
            cands = []
            if st_['panic'] or not st_['reply'] or st_['nabs'] or st_['nwf'] or not st_['alloc'] or not st_.get('trace', 1):
                cands += vlib.classify_all(st_)
                if st_['panic'] and res.get('panic'):
                    cands = [('panic', res['panic'][:200])]
            m_ = re.search(r'note=(\S+)', st_.get('detail') or '')
            if m_ and 'count-not-clamped' in m_.group(1):
                cands.append(('memory', m_.group(1)))
            cands = [c for c in cands if c[0] in seqengine.KINDS[prop] or c[0] in ('panic', 'memory')]
            if cands:
                fails.append(Failure(prop, cands[0][0], st_['proc'], cands[0][1], replay=dict(header=hdr, ops=ops, probe=fn)))
                shown = True
                break
        if not shown:
            gone.append(fn)
    for k, (profile, nseq, nops, size) in enumerate(WORKLOADS[prop]['quick' if ctx.quick else 'thorough']):
        fs, st = seqengine.run_profile(ctx, prop, profile, nseq, nops, size, seed_off=k * 7919, survive_only=(prop == 'C11'),
                                      # C06 judges each call's own lock events and whether it returns: a disagreement with the
                                      # reference (owned by other properties) does not end the sequence
                                      ignore_foreign=(prop in ('C06', 'C13', 'C11')))
        tot['sequences'] += st['sequences']
        tot['steps'] += st['steps']
        tot['cut'] += st['cut_short']
        tot['nontrivial'] += len(st['nontrivial'])
        tot['unreproduced'] += st.get('unreproduced', [])
        for a, b in st['hist'].items():
            tot['hist'][a] = tot['hist'].get(a, 0) + b
        for f in fs:
            if getattr(f, 'foreign', False):
                tot['foreign'].append(f.sig()[:120])
                # a failure of a relation another property owns still ends the sequence; it is reported there
                continue
            fails.append(f)
        if len(samples) < 3:
            p = os.path.join(ctx.work, 'seq_%s' % profile, 'seq_0.ops')
            if os.path.exists(p):
                samples.append(dict(profile=profile, size=size, ops=open(p).read().splitlines()[1:13]))
    errkinds = {}
    for a, b in tot['hist'].items():
        code = a.split('/')[-1]
        errkinds[code] = errkinds.get(code, 0) + b
    cov = dict(evaluations=tot['steps'], distinct_nontrivial=tot['nontrivial'],
               rule='one evaluation = one RPC on the real server judged by the extracted Coq definitions (AM reply agreement, abs_disk = AM state, '
                    'wf_disk = [], in-memory allocators = on-disk bitmaps); non-trivial = distinct (sequence, step) whose call was executed and agreed',
               samples=samples, sequences=tot['sequences'], sequences_cut_short=tot['cut'], op_histogram=tot['hist'],
               status_histogram=errkinds, failures_owned_by_other_properties=tot['foreign'][:10],
               unreproduced_observations=tot['unreproduced'][:10], finding_probes_without_effect=gone,
               traces_validated_against_impl=tot['sequences'])
    return fails, cov


def replay(ctx, path):
    return seqengine.replay_file(ctx, path)
