#!/bin/bash
# Build everything the checks need: Coq project, extraction, OCaml driver, Go harness, translator.
# usage: build.sh [coq|ocaml|go|all]
set -e
export GOFLAGS=-mod=mod GOPROXY=off GOSUMDB=off GOTOOLCHAIN=local
V=$(cd "$(dirname "$0")/.." && pwd)
what=${1:-all}
mkdir -p $V/.work/bin $V/.work/ocaml
if [ "$what" = coq ] || [ "$what" = all ]; then
  cd $V/coq
  [ -f Makefile ] && [ Makefile -nt _CoqProject ] || coq_makefile -f _CoqProject -o Makefile >/dev/null
  timeout 3000 make -j16 2>&1 | grep -v "^COQDEP\|^COQC\|^CLEAN" | grep -v "^Closed under\|^ *$" > $V/.work/coq_build.log || true
  if ! timeout 3000 make -j16 >/dev/null 2>&1; then echo "COQ BUILD FAILED"; tail -30 $V/.work/coq_build.log; exit 1; fi
fi
if [ "$what" = ocaml ] || [ "$what" = all ]; then
  cd $V/.work/ocaml
  if [ ! -f extracted.ml ] || [ $V/coq/Extract.vo -nt extracted.ml ] || [ ! -f $V/coq/Extract.vo ]; then
    timeout 600 coqc -Q $V/coq V $V/coq/Extract.v > extract.log 2>&1 || { cat extract.log; exit 1; }
  fi
  for d in drv; do
    if [ ! -f ../bin/$d ] || [ extracted.ml -nt ../bin/$d ] || [ $V/ocaml/$d.ml -nt ../bin/$d ]; then
      cp $V/ocaml/$d.ml .
      timeout 600 ocamlfind ocamlopt -package str -linkpkg -w -a extracted.mli extracted.ml $d.ml -o ../bin/$d
    fi
  done
fi
if [ "$what" = go ] || [ "$what" = all ]; then
  R=${VERIF_REPO:-/repo}
  cd $V/harness && cp $R/go.sum . && { [ "$R" = /repo ] || go mod edit -replace github.com/mit-pdos/go-nfsd=$R; } && timeout 600 go build -tags verif -o $V/.work/bin/h .
fi
echo BUILD-OK
