"""C12 — decided by theorems in coq/Props/C12.v plus the sequential correspondence engine (scripts/seqprops.py) and crash
images taken between the rounds of a multi-transaction background free."""
import json
import seqprops, crashengine
TRUSTED = ['hand-written AM (Model/Afs.v), abs_disk/wf_disk (Model/Abs.v), agreement relations (Model/Agree.v): run extracted on the implementation disk and replies',
           'go-journal obj.Log.Load as the reader of the logical disk']
ASSUMPTIONS = ['sequential client; checkpoints taken after each RPC has returned and the background shrinker is idle']


def run(ctx, ps, gen_bad):
    fails, cov = seqprops.run(ctx, 'C12', ps, gen_bad)
    # between the rounds of a background free the disk must never show an inode that still points at blocks already
    # given back (whoever gets them next would share them with it): crash images inside a 720-block truncation
    n = 16 if ctx.quick else 300
    wl = [('bigshrink', 0, 3000, True, n, ctx.seed * 4 + 0), ('bigshrink', 0, 3000, True, n, ctx.seed * 4 + 2)]
    f2, c2 = crashengine.run(ctx, 'C12', wl, own=r"wf=|suffix-|post-suffix")
    fails += f2
    cov['crash_images_between_rounds_of_a_background_free'] = c2['evaluations']
    cov['evaluations'] += c2['evaluations']
    return fails, cov


def replay(ctx, path):
    if 'budget' in json.load(open(path)):
        return crashengine.replay(ctx, path)
    return seqprops.replay(ctx, path)
