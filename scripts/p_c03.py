"""C03 — linearizability: strict two-phase locking theorem + discipline predicates on every transaction + linearizability search."""
import concengine
TRUSTED = ['goroutine schedules are sampled (seeded yields/sleeps at the hook points), not enumerated: partial by nature',
           'a history that fails only because one READDIRPLUS reply mixes the attributes of its entries from different moments is reported as the open finding F33 (the driver re-searches with those attributes left out; the verdict of the first search stands)']
ASSUMPTIONS = ['histories of up to 4 clients x 8 operations; the search has a node budget (exhaustion is reported, not counted as success)']


def run(ctx, ps, gen_bad):
    if ctx.quick:
        plan = [('names', 3, 6, 14), ('xrename', 3, 6, 12), ('data', 3, 6, 8), ('names', 4, 5, 6), ('relock', 3, 6, 30),
                # cold inode cache, a directory larger than the cache, stalled inode reads (slots recycled under a reader)
                ('coldcache', 4, 8, 8),
                # creates of one name while the first of them helps to finish a background free it was handed (after a hard stop)
                ('allocretry', 3, 4, 8),
                # steered interleavings: a call held between giving up and re-taking its locks while the name is re-bound /
                # the directory replaced / the RENAME target removed
                ('rmrebind', 3, 6, 3), ('staledir', 3, 6, 2), ('renamegone', 3, 6, 2)]
    else:
        plan = [('names', 3, 7, 400), ('xrename', 3, 7, 300), ('data', 3, 7, 300), ('names', 4, 6, 200), ('data', 4, 6, 200), ('coldcache', 4, 12, 60), ('relock', 3, 6, 300), ('allocretry', 3, 4, 200), ('rmrebind', 3, 6, 60), ('staledir', 3, 6, 60), ('renamegone', 3, 6, 60)]
    return concengine.run(ctx, 'C03', plan, kinds={'lin', 'trace', 'panic', 'wf', 'tie'})


def replay(ctx, path):
    return concengine.replay(ctx, path)
