#!/usr/bin/env python3
"""Regenerate MANIFEST.json from the table below (one entry per claimed property)."""
import json, os
V = '/verif'
CLAIMS = {
 'C15': dict(text="Theorems over the layout functions regenerated from super/super.go by the translator (all accepted sizes < 2^64: regions contiguous, disjoint, inside the disk; inode addresses disjoint; mkfs bitmap marks exactly the non-data blocks) + correspondence of the generated layout and the mkfs model with the real MakeNfs over a dense size range (fields, every bitmap bit, free counts, fill-and-free of whole disks).",
             design="4/C15", technique="Coq proof over translated super.go + differential run of MakeNfs per size",
             note="Trusted: translator for super.go, hand model of markAlloc (tied by bit-exact comparison on every explored size), alloc.Alloc exercised not modelled."),
 'C01': dict(text="Theorems about WM, a model of go-journal's write-ahead log at single-disk-write granularity (every crash image of every reachable state recovers a prefix of the appended transactions containing everything acknowledged; a flushed transaction survives every later crash; recovery re-establishes the invariant, so repeated crashes are covered), plus C01_partial lifting transaction prefixes to call prefixes under the refinement hypotheses. Those hypotheses and the WAL model itself are checked on the real server: recorded workloads are cut at event prefixes with un-barriered writes lost in several patterns; for each image the extracted recovery model must equal what the real recovery sees, wf_disk must be empty, abs_disk must equal the reference after a prefix of the calls within [last stable-acked, last issued], the recovered server's allocators must equal the bitmaps and it must go on serving.",
             design="4/C01", technique="Coq proof of the WAL protocol model + crash-image enumeration judged by extracted Coq definitions",
             note="Trusted: WM/WalDisk are models of dependency code (validated per image), recording-disk crash model, AM, abs_disk; the one-transaction-per-RPC refinement is sampled."),
 'C07': dict(text="AM theorems (write effect independent of stability level, committed level never weaker than requested, FILE_SYNC when the option is off) and WAL-model theorems (recovered = prefix, flushed transactions survive) + crash-image correspondence on mixes of UNSTABLE/DATA_SYNC/FILE_SYNC writes, COMMITs and metadata operations with the option on and off: admissible prefix window per crash point (COMMIT and stable operations are durability points), loss only as a suffix, write verifier constant within an instance and different after recovery.",
             design="4/C07", technique="Coq proofs on reference and WAL models + crash-image enumeration with durability windows",
             note="Trusted: as C01; the verifier clause is checked only by observation (it depends on the clock)."),
 'C17': dict(text="The transliteration of simple/ (explicit uint64 wrap-around) refines the specification '30 files of at most 4096 bytes' for all inode numbers, offsets, counts and sizes below 2^64 over whole histories (C17_simple_refines_history), SETATTR's allocation is bounded by one block; journal theorems give all-or-nothing and durability per transaction. simple.Nfs is compared with BOTH extracted servers on boundary-dense calls and its crash images are judged against the specification states within the acknowledgement window. Linearizability of concurrent requests is not covered (partial).",
             design="4/C17", technique="Coq refinement proof (transliteration -> spec) + differential execution + crash-image enumeration",
             note="Trusted: hand transliteration (tied by the differential run), WAL model, extraction. Concurrency not covered."),
 'C18': dict(text="KM laws (multi-put installs all pairs, last writer wins within a call, other keys untouched, get returns the latest put) + journal theorems (crash = prefix of transactions, flushed = durable). kvs.KVS is compared with the extracted KM on generated calls including both boundaries of the key range, and every key's block in every crash image must equal KM after a prefix of the calls containing all acknowledged ones.",
             design="4/C18", technique="Coq proofs on the store model and WAL model + differential execution + crash-image enumeration",
             note="Trusted: KM, WAL model, extraction. Concurrent callers not exercised."),
 'C04': dict(text="Theorems: disjoint in-disk regions for every accepted size (generated layout, shared with abs_disk/wf_disk); for index trees of any depth, allocation-on-demand and freeing from the top never give a block two owners, never lose one, keep free blocks zero and leave other mappings unchanged (TM, transliteration of indbmap/indshrink); every crash state is a transaction prefix (C01). Checked on every run: the extracted wf_disk is evaluated on the implementation's logical disk after every RPC of generated sequences (namespace-heavy, block-recycling, small disks) and on every crash image of C01's runs. Preservation of wf_disk by each whole Go transaction is sampled, not proved (partial).",
             design="4/C04", technique="Coq proofs on layout and index-tree model + extracted invariant checker run on the real disk after every operation",
             note="Trusted: wf_disk as the reading of 'well-formed' (Appendix C of DESIGN.md), TM as transliteration of the inode layer (not itself run against the code), extraction."),
 'C05': dict(text="TM theorems: owned blocks ++ free list is a permutation before/after allocation-on-demand and freeing (no leak, no double ownership), freeing to block 0 returns every block of the tree zeroed. Checked on every run: build-then-delete-everything histories (all size classes via boundary offsets, multi-transaction frees by the background shrinker, renames over targets, failed operations) with wf_disk (used = owned, no unreachable inode, free inode owns nothing at quiescence) and in-memory allocator counts = on-disk bitmap counts after every RPC and after restarts; crash images inside multi-transaction frees are judged in C01's runs.",
             design="4/C05", technique="Coq proofs on index-tree model + extracted ownership/bitmap checker and allocator comparison on the real server",
             note="Trusted: as C04; in-memory allocators are observed through NumFree (counts, not bit-by-bit)."),
 'C12': dict(text="TM theorems: free blocks are all-zero before and after allocation and freeing (freed blocks are zeroed in the same step), mappings of other offsets are unchanged. The reference AM defines READ over holes/re-exposed regions as zero. Checked on every run: block-recycling sequences (fill with recognisable non-zero patterns, delete or shrink to aligned and unaligned sizes, sparse and partial-block writes that reuse the blocks); READ data compared with AM, and wf_disk on the real disk after every RPC: every unowned data block zero, bytes of a last block beyond the size zero.",
             design="4/C12", technique="Coq proofs on index-tree model + differential reads against the reference + zero-scan of the real disk",
             note="Trusted: as C04; crash images are zero-scanned in C01's runs."),
 'C02': dict(text="Laws of the reference file system AM proved in Coq for all states, calls and hints (a failing call is the identity, read-only procedures are the identity, unsupported procedures and restarts have no effect) + the implementation is compared with the extracted AM reply by reply and with the extracted abstraction of its logical disk after every RPC of generated sequences (all 22 procedures, stale handles, names of every length class, offsets at indirection boundaries, restarts, unstable on/off). The refinement Go code -> AM is sampled, not proved (C02_partial).",
             design="4/C02", technique="Coq laws of the reference model + differential execution of extracted model against the real server",
             note="Trusted: AM as the statement of NFSv3 semantics (Appendix A of DESIGN.md), abs_disk, extraction, OCaml glue; refinement is sampled."),
 'C08': dict(text="On the reference AM, for every history: a dead handle stays dead across any later calls and restarts (dead_forever), a successful creation returns a never-issued (number, generation) pair (create_fresh), and every procedure/handle position refuses an unresolvable handle without effect, as STALE (stale_everywhere, stale_class). The implementation is compared with AM while dead handles are re-presented to all procedures and positions after restarts that force inode-number reuse; AM checks the freshness of every handle the implementation returns.",
             design="4/C08", technique="Coq proof on the reference model + differential execution with dead-handle replay",
             note="Trusted: AM, handle codec model (16 bytes little-endian), extraction; refinement sampled."),
 'C09': dict(text="On the reference AM a call answered with an error is the identity on the state, for all states/calls/hints, hence any suffix behaves as if it had not been issued (C09_failed_call_identity, C09_suffix_equal); C09_partial derives the property for any implementation that refines AM. The refinement is sampled: nearly-full disks of several sizes, requests that fail late; abs_disk of the implementation's disk, allocator counts and wf_disk compared after every failing RPC and over suffixes and restarts.",
             design="4/C09", technique="Coq proof on the reference model + differential execution on nearly-full disks",
             note="Trusted: AM, abs_disk/wf_disk, extraction; the Go abort path itself is not modelled, only observed."),
}
props = [json.loads(l) for l in open(os.path.join(V, 'properties.jsonl'))]
m = json.load(open(os.path.join(V, 'MANIFEST.json')))
m['checks'] = []
m['not_applicable'] = []
for p in props:
    pid = p['id']
    c = CLAIMS.get(pid)
    if c and os.path.exists(os.path.join(V, 'scripts', 'p_%s.py' % pid.lower())):
        m['checks'].append(dict(property_id=pid, quick_cmd='./check %s --tier quick' % pid, thorough_cmd='./check %s --tier thorough' % pid,
                                evidence_file='evidence/%s.json' % pid, replay_cmd_template='./check %s --replay {path}' % pid,
                                engine='coq+correspondence', technique=c['technique'],
                                level_claimed=dict(category='proof', text=c['text'], design_ref=c['design']), level_note=c['note']))
    else:
        m['not_applicable'].append(dict(property_id=pid, reason='not claimed yet: the check for this property is still being built (see DESIGN.md section 4 for the planned theorems and tie)'))
m['engines'] = [dict(name='coq+correspondence', path='check', serves_properties=[c['property_id'] for c in m['checks']],
                     kind_free_text='Coq 8.16 theorems over models (translated or hand-written), models tied to /repo by a translator re-run on every check and by differential execution of extracted Coq code against the real server')]
json.dump(m, open(os.path.join(V, 'MANIFEST.json'), 'w'), indent=1)
print(len(m['checks']), 'claimed;', len(m['not_applicable']), 'not claimed')
