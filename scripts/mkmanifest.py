#!/usr/bin/env python3
"""Regenerate MANIFEST.json from the table below (one entry per claimed property)."""
import json, os
V = '/verif'
CLAIMS = {
 'C15': dict(text="Theorems over the layout functions regenerated from super/super.go by the translator (all accepted sizes < 2^64: regions contiguous, disjoint, inside the disk; inode addresses disjoint; mkfs bitmap marks exactly the non-data blocks) + correspondence of the generated layout and the mkfs model with the real MakeNfs over a dense size range (fields, every bitmap bit, free counts, fill-and-free of whole disks).",
             design="4/C15", technique="Coq proof over translated super.go + differential run of MakeNfs per size",
             note="Trusted: translator for super.go, hand model of markAlloc (tied by bit-exact comparison on every explored size), alloc.Alloc exercised not modelled."),
 'C02': dict(text="Laws of the reference file system AM proved in Coq for all states, calls and hints (a failing call is the identity, read-only procedures are the identity, unsupported procedures and restarts have no effect) + the implementation is compared with the extracted AM reply by reply and with the extracted abstraction of its logical disk after every RPC of generated sequences (all 22 procedures, stale handles, names of every length class, offsets at indirection boundaries, restarts, unstable on/off). The refinement Go code -> AM is sampled, not proved (C02_partial).",
             design="4/C02", technique="Coq laws of the reference model + differential execution of extracted model against the real server",
             note="Trusted: AM as the statement of NFSv3 semantics (Appendix A of DESIGN.md), abs_disk, extraction, OCaml glue; refinement is sampled."),
 'C08': dict(text="On the reference AM, for every history: a dead handle stays dead across any later calls and restarts (dead_forever), a successful creation returns a never-issued (number, generation) pair (create_fresh), and every procedure/handle position refuses an unresolvable handle without effect, as STALE (stale_everywhere, stale_class). The implementation is compared with AM while dead handles are re-presented to all procedures and positions after restarts that force inode-number reuse; AM checks the freshness of every handle the implementation returns.",
             design="4/C08", technique="Coq proof on the reference model + differential execution with dead-handle replay",
             note="Trusted: AM, handle codec model (16 bytes little-endian), extraction; refinement sampled."),
 'C09': dict(text="On the reference AM a call answered with an error is the identity on the state, for all states/calls/hints, hence any suffix behaves as if it had not been issued (C09_failed_call_identity, C09_suffix_equal); C09_partial derives the property for any implementation that refines AM. The refinement is sampled: nearly-full disks of several sizes, requests that fail late; abs_disk of the implementation's disk, allocator counts and wf_disk compared after every failing RPC and over suffixes and restarts.",
             design="4/C09", technique="Coq proof on the reference model + differential execution on nearly-full disks",
             note="Trusted: AM, abs_disk/wf_disk, extraction; the Go abort path itself is not modelled, only observed."),
}
props = [json.loads(l) for l in open(os.path.join(V, 'properties.jsonl'))]
m = json.load(open(os.path.join(V, 'MANIFEST.json')))
m['checks'] = []
m['not_applicable'] = []
for p in props:
    pid = p['id']
    c = CLAIMS.get(pid)
    if c and os.path.exists(os.path.join(V, 'scripts', 'p_%s.py' % pid.lower())):
        m['checks'].append(dict(property_id=pid, quick_cmd='./check %s --tier quick' % pid, thorough_cmd='./check %s --tier thorough' % pid,
                                evidence_file='evidence/%s.json' % pid, replay_cmd_template='./check %s --replay {path}' % pid,
                                engine='coq+correspondence', technique=c['technique'],
                                level_claimed=dict(category='proof', text=c['text'], design_ref=c['design']), level_note=c['note']))
    else:
        m['not_applicable'].append(dict(property_id=pid, reason='not claimed yet: the check for this property is still being built (see DESIGN.md section 4 for the planned theorems and tie)'))
m['engines'] = [dict(name='coq+correspondence', path='check', serves_properties=[c['property_id'] for c in m['checks']],
                     kind_free_text='Coq 8.16 theorems over models (translated or hand-written), models tied to /repo by a translator re-run on every check and by differential execution of extracted Coq code against the real server')]
json.dump(m, open(os.path.join(V, 'MANIFEST.json'), 'w'), indent=1)
print(len(m['checks']), 'claimed;', len(m['not_applicable']), 'not claimed')
