#!/usr/bin/env python3
"""Regenerate MANIFEST.json from the table below (one entry per claimed property)."""
import json, os
V = '/verif'
CLAIMS = {
 'C15': dict(text="Theorems over the layout functions regenerated from super/super.go by the translator (all accepted sizes < 2^64: regions contiguous, disjoint, inside the disk; inode addresses disjoint; mkfs bitmap marks exactly the non-data blocks) + correspondence of the generated layout and the mkfs model with the real MakeNfs over a dense size range (fields, every bitmap bit, free counts, fill-and-free of whole disks).",
             design="4/C15", technique="Coq proof over translated super.go + differential run of MakeNfs per size",
             note="Trusted: translator for super.go, hand model of markAlloc (tied by bit-exact comparison on every explored size), alloc.Alloc exercised not modelled."),
}
props = [json.loads(l) for l in open(os.path.join(V, 'properties.jsonl'))]
m = json.load(open(os.path.join(V, 'MANIFEST.json')))
m['checks'] = []
m['not_applicable'] = []
for p in props:
    pid = p['id']
    c = CLAIMS.get(pid)
    if c and os.path.exists(os.path.join(V, 'scripts', 'p_%s.py' % pid.lower())):
        m['checks'].append(dict(property_id=pid, quick_cmd='./check %s --tier quick' % pid, thorough_cmd='./check %s --tier thorough' % pid,
                                evidence_file='evidence/%s.json' % pid, replay_cmd_template='./check %s --replay {path}' % pid,
                                engine='coq+correspondence', technique=c['technique'],
                                level_claimed=dict(category='proof', text=c['text'], design_ref=c['design']), level_note=c['note']))
    else:
        m['not_applicable'].append(dict(property_id=pid, reason='not claimed yet: the check for this property is still being built (see DESIGN.md section 4 for the planned theorems and tie)'))
m['engines'] = [dict(name='coq+correspondence', path='check', serves_properties=[c['property_id'] for c in m['checks']],
                     kind_free_text='Coq 8.16 theorems over models (translated or hand-written), models tied to /repo by a translator re-run on every check and by differential execution of extracted Coq code against the real server')]
json.dump(m, open(os.path.join(V, 'MANIFEST.json'), 'w'), indent=1)
print(len(m['checks']), 'claimed;', len(m['not_applicable']), 'not claimed')
